"""C12 - on-demand endgame tables.  Clauses decided:
 .1 K3  generator typestate in TranspositionTable (inductive class invariant):
        at every exit tbGen is {null & full table in use} or {generated & region reserved}
 .2 K2  TBGenerator::generate: success only after the final DRAW sweep and after a pass with
        no modification; every abort test leads to `return false`
 .3 K12 the three final predicates probeDTM uses partition the 8-bit state space and exclude
        every intermediate state; setters/getters of the distance are inverse
 .4 K11 region arithmetic: tbSize >= 20*64^(N-1) for the N of the men guard, divisible by the
        slot size and the bucket size; size guard precedes construction; region at the top
"""
from ..core import cname, ap, walk, show, strip_not, eff_cond, strip_targs
from ..flow import Flow
from ..peval import Evaluator, Unknown
from .. import rules as R
from .. import regions as G

EXPLANATION = (
    'Static rules over the resolved program. Decided: (1) typestate of TranspositionTable::tbGen x reserved-region flag as an '
    'inductive invariant of the class (every method analysed from the invariant states; sibling calls by summary): no exit with a '
    'constructed-but-not-generated generator installed, or with a generated one whose region is not reserved; (2) in '
    'TBGenerator::generate every path to `return true` passes the final remaining-positions-are-draw sweep (whole-range loop) after '
    'an iteration that modified nothing, and the true branch of every time/stop test can only return false; (3) by exhaustive '
    'constant evaluation over the 8-bit state domain, getMateInN / getMatedInN / isDraw are pairwise disjoint and false on '
    'INVALID, UNINITIALIZED, UNKNOWN and every REMAINING_N, and get(set(n)) == n; (4) the reserved region is large enough for the '
    'largest table the men guard admits, aligned to slots and buckets, guarded by the size test, and placed at the top of the table.'
    ' (5) probeDTM answers only for positions without castling rights (the castle mask is tested in the probe or in the position import it requires).'
    ' Added later; (7) every adjacent-duplicate filter of the generator compares each element that has a predecessor with it, and the successor / predecessor lists are sorted before they are returned.'
    " Added later; (8) in getUnMoves the un-capture moves the black king first and the white king last, as TBIndex::setSquare's special cases require (guard evaluated for every piece number). (7, extended) every neighbour-list loop has such a filter, or the list is cut at std::unique where it is sorted. (9) TBPosition::setPosition succeeds only after a sweep over every piece type that fails on a man that found no slot. (10) the first sweep of the generation stores a value for every index it visits (memory inside the hash table holds stale bytes). (11) TBIndex::canonize does not re-order the pieces after the index was compared with its mirror alternative. (12) updateTB decides 'not enough time to generate' only after 'the root is already in the installed table'.")
UNDECIDED = 'exactness of the distance-to-mate values themselves (retrograde analysis over millions of positions is value-level).'
ASSUMPTIONS = ['8-bit two\'s complement storage of PositionValue::State (S8)',
               'TBPosition index arithmetic (20*64^(N-1) positions) is read from the constructor\'s constants']

TT = 'TranspositionTable'


def run(fb, rep, tier):
    c1_typestate(fb, rep)
    c2_generate(fb, rep)
    c3_partition(fb, rep)
    c4_region(fb, rep)
    c5_probe_scope(fb, rep, 'C12.5')
    c6_block_skip(fb, rep, 'C12.6')
    c7_dedup_filters(fb, rep, 'C12.7')
    c8_uncapture_order(fb, rep, 'C12.8')
    c9_all_men_placed(fb, rep, 'C12.9')
    c10_first_sweep_defines_every_slot(fb, rep, 'C12.10')
    c11_canonical_index_compared_after_sorting(fb, rep, 'C12.11')
    c12_installed_table_is_used(fb, rep, 'C12.12')


# ----------------------------------------------------------------------------- .1

class TbState:
    """config = (g, u):  g in N(null) C(constructed, not generated) G(generated) ;
    u in F(full table in use) R(region reserved) ?(unknown)"""

    # safe states: nothing installed (whatever part of the table is in use), or a complete table
    # whose region is reserved.  Unsafe: C* (partial generator observable through probeDTM),
    # (G,F)/(G,?) (complete table whose bytes ordinary stores may overwrite), (N,?) (used size
    # not re-established).  (N,R) - region still reserved after a failed regeneration - only
    # wastes hash space and is therefore part of the invariant, not a violation.
    INV = {('N', 'F'), ('N', 'R'), ('G', 'R')}

    def __init__(self, fb):
        self.fb = fb
        self.summ = {}
        self.busy = set()
        self.ret_states = []

    @staticmethod
    def is_gen(t):
        return ap(t) == 'this.tbGen'

    def transfer_for(self, func, collect):
        def tr(e, c, pos):
            out = []
            for (g2, u2, l2) in self._tr(func, collect, e, c, pos):
                out.append((g2, u2, l2))
            return out
        return tr

    @staticmethod
    def _makes_generator(t):
        return isinstance(t, dict) and any(n2.get('k') == 'call' and 'make_unique<TBGenerator<TTStorage' in (n2.get('n') or '') or
                                           (n2.get('k') == 'new' and 'TBGenerator<TTStorage' in (n2.get('t') or '')) for n2 in walk(t))

    def _tr(self, func, collect, e, c, pos):
        g, u, loc = c
        k = e.get('k')
        # a generator over the shared ttStorage built into a LOCAL variable: the bytes of an installed table are
        # overwritten by its generate(), so an installed complete table must be considered partial from here on
        if k == 'decl':
            for v in e.get('vars', []):
                if self._makes_generator(v.get('init')):
                    return [('C' if g == 'G' else g, u, 'C')]
        if k == 'call':
            n = cname(e)
            last = n.split('::')[-1]
            recv = e.get('recv')
            if recv is not None and self.is_gen(recv) and last == 'operator=':
                a = (e.get('args') or [None])[0]
                if isinstance(a, dict) and any(n2.get('k') == 'var' and n2.get('vk') == 'local' and 'TBGenerator' in (n2.get('t') or '') for n2 in walk(a)) \
                        and loc is not None:
                    return [(loc, u, None)]
        res = self._tr0(func, collect, e, (g, u), pos)
        return [(g2, u2, loc) for (g2, u2) in res]

    def _tr0(self, func, collect, e, c, pos):
        if True:
            g, u = c
            k = e.get('k')
            if k == 'call':
                n = cname(e)
                last = n.split('::')[-1]
                recv = e.get('recv')
                if recv is not None and self.is_gen(recv):
                    if last == 'reset':
                        a = [x for x in e.get('args', []) if not (isinstance(x, dict) and x.get('defarg'))]
                        return [('N' if not a or (isinstance(a[0], dict) and a[0].get('k') == 'null') else 'C', u)]
                    if last == 'operator=':
                        a = (e.get('args') or [None])[0]
                        if isinstance(a, dict) and a.get('k') == 'null':
                            return [('N', u)]
                        made = any(n2.get('k') in ('call', 'new') and ('make_unique' in (n2.get('n') or '') or n2.get('k') == 'new')
                                   for n2 in walk(a)) if isinstance(a, dict) else False
                        return [('C', u)] if made else [('C', u), ('N', u)]
                    if last in ('release', 'swap'):
                        return [('N', u), ('C', u)]
                    return [c]
                if n == TT + '::setUsedSize':
                    a = (e.get('args') or [None])[0]
                    if ap(a) == 'this.tableSize':
                        return [(g, 'F')]
                    if isinstance(a, dict) and a.get('k') == 'bin' and a.get('op') == '-' and ap(a.get('l')) == 'this.tableSize':
                        return [(g, 'R')]
                    return [(g, '?')]
                if recv is not None and recv.get('k') == 'this' and e.get('f'):
                    callee = self.fb.funcs.get(e['f'])
                    if callee is not None and callee.has_cfg and callee.d.get('cls') == TT and not callee.d.get('const'):
                        return sorted({(x[0], x[1]) for x in self.summary(callee).get((c[0], c[1], None), {(c[0], c[1], None)})})
                return [c]
            if k == 'ret' and collect:
                self.ret_states.append((func, pos, e, c))
            if k == 'asg' and self.is_gen(e.get('l')):
                return [('C', u), ('N', u)]
            return [c]

    def refine(self, cond, truth, c):
        g, u, loc = c
        out = []
        e0, pol0 = strip_not(cond)
        if isinstance(e0, dict) and e0.get('k') == 'call' and cname(e0).split('::')[-1] == 'generate' and e0.get('recv') is not None:
            rp = ap(e0['recv']) or ''
            if rp != 'this.tbGen->' and loc is not None:
                return [(g, u, 'G' if truth == pol0 else 'C')]
        for (g2, u2) in self._refine0(cond, truth, (g, u)):
            out.append((g2, u2, loc))
        return out

    def _refine0(self, cond, truth, c):
        g, u = c
        e, pol = strip_not(cond)
        if isinstance(e, dict) and e.get('k') == 'call':
            n = cname(e)
            last = n.split('::')[-1]
            recv = e.get('recv')
            if last == 'generate' and recv is not None and ap(recv) == 'this.tbGen->':
                return [('G' if truth == pol else 'C', u)]
            if last == 'operator bool' and recv is not None and self.is_gen(recv):
                want_valid = (truth == pol)
                if want_valid:
                    return [c] if g != 'N' else []
                return [c] if g == 'N' else []
            if last in ('operator!=', 'operator==') and n.startswith('std::'):
                ops = ([recv] if recv is not None else []) + list(e.get('args', []))
                if any(self.is_gen(o) for o in ops) and any(isinstance(o, dict) and o.get('k') == 'null' for o in ops):
                    want_valid = ((truth == pol) == (last == 'operator!='))
                    if want_valid:
                        return [c] if g != 'N' else []
                    return [c] if g == 'N' else []
        return [c]

    def summary(self, func):
        if func.key in self.summ:
            return self.summ[func.key]
        if func.key in self.busy:
            return {}
        self.busy.add(func.key)
        s = {}
        for c0 in [(g0, u0, None) for g0 in 'NCG' for u0 in 'FR?']:
            fl = Flow(func, self.transfer_for(func, False), self.refine).run({c0})
            s[c0] = set(fl.at_exit) or {c0}
        self.busy.discard(func.key)
        self.summ[func.key] = s
        return s


def c1_typestate(fb, rep, clause='C12.1'):
    if rep.need(clause, fb.field(TT + '::tbGen'), 'field TranspositionTable::tbGen') is None:
        return
    ts = TbState(fb)
    methods = [f for f in fb.funcs.values() if f.has_cfg and f.d.get('cls') == TT and not f.d.get('dtor') and not f.d.get('const')]
    writers = 0
    for f in sorted(methods, key=lambda x: x.key):
        touches = any((e.get('k') == 'call' and ((e.get('recv') is not None and ts.is_gen(e['recv']) and
                                                 cname(e).split('::')[-1] in ('reset', 'operator=', 'swap', 'release')) or
                                                cname(e) == TT + '::setUsedSize')) or
                      (e.get('k') == 'asg' and ts.is_gen(e.get('l'))) for _, _, e in f.events())
        calls_sibling = any(e.get('k') == 'call' and e.get('recv') is not None and e['recv'].get('k') == 'this' and
                            (fb.funcs.get(e.get('f')) is not None and fb.funcs[e['f']].d.get('cls') == TT and not fb.funcs[e['f']].d.get('const'))
                            for _, _, e in f.events())
        if not touches and not calls_sibling:
            continue
        if f.sname == TT + '::setUsedSize':
            continue    # the primitive itself; its effect is modelled at its call sites
        writers += 1 if touches else 0
        if f.d.get('ctor'):
            us, tsz = fb.field(TT + '::usedSize'), fb.field(TT + '::tableSize')
            same0 = bool(us and tsz and isinstance(us.get('init'), dict) and isinstance(tsz.get('init'), dict) and
                         us['init'].get('cv') is not None and us['init'].get('cv') == tsz['init'].get('cv'))
            entry = {('N', 'F' if same0 else '?', None)}     # in-class initialisers: usedSize == tableSize
        else:
            entry = {(a, b, None) for (a, b) in TbState.INV}
        ts.ret_states = []
        fl = Flow(f, ts.transfer_for(f, True), ts.refine).run(entry)
        if fl.overflow:
            rep.broken(clause, 'typestate overflow in ' + f.sname)
        # per return statement (and fall-off exit) the set of states
        by_ret = {}
        for (_, pos, e, c) in ts.ret_states:
            by_ret.setdefault((pos, e.get('ln')), set()).add(c)
        if not by_ret and fl.at_exit:
            by_ret[((f.exit, 0), f.d.get('endline'))] = set(fl.at_exit)
        elif fl.at_exit and f.d.get('ret') == 'void':
            by_ret[((f.exit, 0), f.d.get('endline'))] = set(fl.at_exit)
        n = 0
        for (pos, ln), states in sorted(by_ret.items(), key=lambda kv: (-kv[0][0][0], kv[0][0][1])):
            n += 1
            bad = sorted({(s[0], s[1]) for s in states if (s[0], s[1]) not in TbState.INV})
            what = {'C': 'a constructed-but-not-generated (partial) generator is installed, or the installed table\'s bytes were overwritten by another generator built over the shared storage',
                    'G': 'a generated table is installed but its region is not reserved (setUsedSize)',
                    'N': 'no generator is installed and the used size was not re-established'}
            rep.ob(clause, 'K3 generator typestate', '%s: exit #%d leaves (tbGen, region) in the class invariant' % (f.sname, n),
                   not bad, '%s:%s' % (f.file, ln),
                   '' if not bad else 'states %s reach this exit: %s' % (bad, '; '.join(sorted({what[b[0]] for b in bad}))),
                   f.sname)
    rep.floor(clause, 'methods writing tbGen / usedSize', writers, 2)
    # probeDTM: the only reader; null typestate of tbGen
    from ..nullstate import NullState
    ns = NullState(fb, TT, 'tbGen')
    nd = 0
    for f in sorted((f for f in fb.funcs.values() if f.has_cfg and f.d.get('cls') == TT), key=lambda x: x.key):
        v0 = len(ns.violations)
        ns.analyse_method(f, ('N',) if f.d.get('ctor') else ('N', 'V'))
        for bid, i, e in f.events():
            if e.get('k') == 'call' and e.get('recv') is not None and ns.is_member(e['recv']) and cname(e).split('::')[-1] in ('operator->', 'operator*'):
                nd += 1
                ok = not any(v[2] is e for v in ns.violations[v0:])
                rep.ob(clause, 'K3 null typestate', '%s: tbGen dereference #%d' % (f.sname, nd), ok, R.site(f, e),
                       '' if ok else ns.describe(f, (bid, i), e), f.sname)
    # Vacuity guard.  Three dereferences were confirmed by hand (probeDTM's read, updateTB's reuse test and its generate call).
    # A generator that is built into a local owner and moved into tbGen afterwards (round 20: a correct variant of that
    # shape stopped here with exit 2) is dereferenced through the local: such dereferences count towards the floor - the
    # owner was just made by make_unique, there is no null question to ask - while the typestate above judges what is
    # installed at each exit.
    member_t = next((e['recv'].get('t') for f in fb.funcs.values() if f.has_cfg and f.d.get('cls') == TT for _, _, e in f.events()
                     if e.get('k') == 'call' and e.get('recv') is not None and ns.is_member(e['recv'])), None)
    nl = 0
    for f in (f for f in fb.funcs.values() if f.has_cfg and f.d.get('cls') == TT):
        for bid, i, e in f.events():
            r = e.get('recv') if e.get('k') == 'call' else None
            if isinstance(r, dict) and r.get('k') == 'var' and r.get('vk') == 'local' and member_t and r.get('t') == member_t and \
                    cname(e).split('::')[-1] in ('operator->', 'operator*'):
                nl += 1
    rep.floor(clause, 'dereferences of tbGen (or of a local owner of the same type)', nd + nl, 3)
    rep.floor(clause, 'dereferences of the member tbGen', nd, 1)


# ----------------------------------------------------------------------------- .2

def c2_generate(fb, rep):
    clause = 'C12.2'
    gens = fb.find('TBGenerator::generate')
    if not rep.need(clause, gens, 'TBGenerator::generate (instantiations)'):
        return
    rep.floor(clause, 'instantiations of TBGenerator::generate', len(gens), 1)
    for f in gens:
        tag = f.name
        # roles: the number of positions = the local initialised from nPositions(); the time limit = the first parameter
        npos_ids = {v['id'] for _, _, e in f.events() if e.get('k') == 'decl' for v in e.get('vars', [])
                    if any(n.get('k') == 'call' and cname(n) == 'TBPosition::nPositions' for n in walk(v.get('init') or {}))}
        time_param = (f.d.get('params') or [{}])[0].get('id')
        # the sweep: setDraw guarded by isRemainingN inside a for loop
        sweeps = []
        for bid, i, e in f.calls('PositionValue::setDraw'):
            # controlling condition: nearest dominating branch on isRemainingN
            doms = f.dominators().get(bid, set())
            guard = None
            for d in doms:
                t = f.blocks[d].get('term')
                c = eff_cond(t) if t else None
                if c is not None:
                    ce, pol = strip_not(c)
                    if isinstance(ce, dict) and ce.get('k') == 'call' and cname(ce) == 'PositionValue::isRemainingN':
                        guard = d
            if guard is not None:
                sweeps.append((bid, i, e, guard))
        rep.floor(clause, 'remaining->draw sweep in %s' % tag, len(sweeps), 1)
        if not sweeps:
            continue
        bid, i, e, guard = sweeps[-1]
        # loop header of the sweep: the ForStmt condition block dominating the guard
        header = None
        for d in sorted(f.dominators().get(guard, set())):
            t = f.blocks[d].get('term')
            if t and t.get('c') == 'ForStmt' and d != guard:
                # is guard inside this loop? (header reachable from guard)
                if _reaches(f, guard, d):
                    if header is None or d in f.dominators().get(header, set()) is False:
                        header = d if header is None else header
                    header = d
        if header is None:
            rep.broken(clause, 'sweep loop header not found in ' + tag)
            continue
        hb = f.blocks[header]
        cond = hb['term'].get('cond')
        # whole-range loop: idx < nPos, idx from 0, ++ only
        shape_ok = False
        idxv = None
        if isinstance(cond, dict) and cond.get('k') == 'bin' and cond.get('op') == '<':
            l, r = cond.get('l'), cond.get('r')
            l0 = l.get('e') if isinstance(l, dict) and l.get('k') == 'cast' else l
            r0 = r.get('e') if isinstance(r, dict) and r.get('k') == 'cast' else r
            if isinstance(l0, dict) and l0.get('k') == 'var' and isinstance(r0, dict) and r0.get('k') == 'var' and r0.get('id') in npos_ids:
                idxv = l0.get('id')
                shape_ok = True
        init_ok = False
        writes = []
        loop_blocks = {b for b in f.blocks if _reaches(f, header, b) and _reaches(f, b, header)} | {header}
        for b2, i2, e2 in f.events():
            if e2.get('k') == 'decl':
                for v in e2.get('vars', []):
                    if v.get('id') == idxv and isinstance(v.get('init'), dict) and v['init'].get('cv') == 0:
                        init_ok = True
            if b2 in loop_blocks:
                if e2.get('k') == 'incdec' and isinstance(e2.get('e'), dict) and e2['e'].get('id') == idxv:
                    writes.append('++' if e2.get('op') == '++' else '--')
                if e2.get('k') == 'asg' and isinstance(e2.get('l'), dict) and e2['l'].get('id') == idxv:
                    writes.append(e2.get('op'))
        exits = [b for b in loop_blocks for s in f.blocks[b]['succ'] if s not in loop_blocks and b != header]
        ok = shape_ok and init_ok and writes == ['++'] and not exits
        rep.ob(clause, 'K2 loop shape', '%s: the draw sweep visits every index 0..nPos-1' % tag, ok,
               '%s:%s' % (f.file, hb['term'].get('ln')),
               '' if ok else 'condition %s, init0=%s, writes to the index in the loop=%s, early exits from blocks %s' % (show(cond), init_ok, writes, exits), f.sname)
        # every path to `return true` passes the sweep header after a pass with modified == 0
        def is_ret_true(ev):
            return ev is not None and ev.get('k') == 'ret' and isinstance(ev.get('e'), dict) and ev['e'].get('cv') == 1

        def is_ret_false(ev):
            return ev is not None and ev.get('k') == 'ret' and isinstance(ev.get('e'), dict) and ev['e'].get('cv') == 0
        rets = f.find_events(is_ret_true)
        rep.floor(clause, '`return true` in %s' % tag, len(rets), 1)
        seen_at_header = set()
        # the change counter: the local incremented where a new mate-in-n value is recorded
        mod_ids = set()
        for bid2, blk2 in f.blocks.items():
            if any(ev.get('k') == 'call' and cname(ev) == 'PositionValue::setMateInN' for ev in blk2['ev']):
                for ev in blk2['ev']:
                    if ev.get('k') == 'incdec' and ev.get('op') == '++' and isinstance(ev.get('e'), dict) and ev['e'].get('vk') == 'local':
                        mod_ids.add(ev['e']['id'])
        if not mod_ids:
            rep.broken(clause, '%s: no change counter is incremented where setMateInN records a new value' % tag)

        def tr(ev, c, pos):
            if ev.get('k') == 'decl' and any(v.get('id') in mod_ids for v in ev.get('vars', [])):
                return ['?']
            if ev.get('k') in ('incdec', 'asg'):
                tgt = ev.get('e') if ev.get('k') == 'incdec' else ev.get('l')
                if isinstance(tgt, dict) and tgt.get('k') == 'var' and tgt.get('id') in mod_ids:
                    return ['?']
            if pos[0] == header:
                seen_at_header.add(c)
            if is_ret_true(ev):
                at_ret.append((ev, c))
            return [c]

        def rf(cond2, truth, c):
            ce, pol = strip_not(cond2)
            if isinstance(ce, dict) and ce.get('k') == 'bin' and ce.get('op') in ('==', '!='):
                l, r = ce.get('l'), ce.get('r')
                if isinstance(l, dict) and l.get('k') == 'var' and l.get('id') in mod_ids and isinstance(r, dict) and r.get('cv') == 0:
                    zero = (truth == pol) == (ce['op'] == '==')
                    return ['Z'] if zero else ['?']
            return [c]
        at_ret = []
        Flow(f, tr, rf).run({'?'})
        # must pass the sweep header
        for b2, i2, e2 in rets:
            w = f.path_avoiding((f.entry, -1), lambda x, _e=e2: x is _e, R.never)
            # avoid the header block entirely: remove it by treating any event in it as avoid
            w2 = _path_avoiding_block(f, (f.entry, -1), e2, header)
            rep.ob(clause, 'K2 must-pass-through', '%s: `return true` only after the draw sweep' % tag, w2 is None,
                   R.site(f, e2), '' if w2 is None else 'path to the return that skips the sweep loop: ' + ' -> '.join('B%s' % b for b in w2[-8:]), f.sname)
            states = {c for (ev, c) in at_ret if ev is e2}
            rep.ob(clause, 'K2 must-pass-through', '%s: `return true` only after an iteration that modified nothing' % tag,
                   states == {'Z'}, R.site(f, e2), 'state of the `modified == 0` test at the return: %s' % sorted(states), f.sname)
        # abort tests: a branch whose condition involves maxTimeMillis
        aborts = []
        # the limit itself, or a local that holds a reading of it
        lim_ids = {time_param}
        for _, _, e_ in f.events():
            if e_.get('k') == 'decl':
                for v in e_.get('vars', []):
                    if v.get('init') is not None and any(n.get('k') == 'var' and n.get('id') == time_param for n in walk(v['init'])):
                        lim_ids.add(v['id'])
        for b2, blk in f.blocks.items():
            t = blk.get('term')
            if not t or len(blk['succ']) != 2 or t.get('c') != 'IfStmt':
                continue
            c = t.get('cond')
            if c is None:
                continue
            involves = any(n.get('k') == 'var' and n.get('id') in lim_ids for n in walk(c))
            if not involves:
                continue
            aborts.append(b2)
        # innermost abort decisions: the branch that directly leads to `return false`
        n_ab = 0
        for b2 in sorted(aborts, reverse=True):
            blk = f.blocks[b2]
            c = eff_cond(blk['term'])
            ce, pol = strip_not(c)
            tsucc = blk['succ'][0] if pol else blk['succ'][1]
            # if the true successor is itself another abort-related test, the decision is made there
            w = f.path_avoiding((tsucc, -1), is_ret_true, is_ret_false)
            direct = any(is_ret_false(ev) for ev in f.blocks[tsucc]['ev'])
            nested = any(x in aborts for x in [tsucc]) or any(s in aborts for s in f.blocks[tsucc]['succ'])
            if not direct and nested:
                continue
            n_ab += 1
            rep.ob(clause, 'K2 abort => failure', '%s: abort test #%d can only end in `return false`' % (tag, n_ab),
                   w is None and direct, '%s:%s' % (f.file, blk['term'].get('ln')),
                   '' if (w is None and direct) else 'after the abort condition %s holds, success is still reachable / no immediate `return false`' % show(c), f.sname)
        rep.floor(clause, 'abort tests in %s' % tag, n_ab, 3)


def _reaches(f, a, b):
    seen = set()
    st = [a]
    while st:
        x = st.pop()
        for s in f.blocks[x]['succ']:
            if s == b:
                return True
            if s not in seen and s in f.blocks:
                seen.add(s)
                st.append(s)
    return False


def _path_avoiding_block(f, start, target_ev, block):
    from collections import deque
    bid, idx = start
    seen = set()
    dq = deque([(bid, (bid,))])
    while dq:
        b, trail = dq.popleft()
        if b == block:
            continue
        if any(ev is target_ev for ev in f.blocks[b]['ev']):
            return list(trail)
        for s in f.blocks[b]['succ']:
            if s in f.blocks and s not in seen:
                seen.add(s)
                dq.append((s, trail + (s,)))
    return None


# ----------------------------------------------------------------------------- .3

def c3_partition(fb, rep):
    clause = 'C12.3'
    names = ['getMateInN', 'getMatedInN', 'isDraw']
    fs = {n: fb.find1('PositionValue::' + n) for n in names}
    for n in names:
        if rep.need(clause, fs[n], 'PositionValue::' + n) is None:
            return
    st = fb.enums.get(next((k for k in fb.enums if k.startswith('PositionValue::State@')), ''), None)
    if rep.need(clause, st, 'enum PositionValue::State') is None:
        return
    consts = {c['n']: c['v'] for c in st['consts']}
    ev = Evaluator(fb, enum_types={'PositionValue::State': 'signed char'})
    truth = {n: set() for n in names}
    dist = {n: {} for n in names}
    try:
        for s in range(-128, 128):
            for n in names:
                f = fs[n]
                env = {'this.state': s}
                res = ev.run(f, env)
                if res['ret']:
                    truth[n].add(s)
                    if f.d.get('params'):
                        pid = ('v', f.d['params'][0]['id'])
                        dist[n][s] = res['env'].get(pid)
    except Unknown as ex:
        rep.broken(clause, 'constant evaluation left the supported fragment: %s' % ex)
        return
    for a in range(3):
        for b in range(a + 1, 3):
            inter = truth[names[a]] & truth[names[b]]
            rep.ob(clause, 'K12 state partition', '%s and %s are disjoint over all 256 state values' % (names[a], names[b]),
                   not inter, fs[names[a]].where, '' if not inter else 'both hold for state value(s) %s' % sorted(inter)[:8], '')
    inter_states = {'INVALID': consts.get('INVALID'), 'UNINITIALIZED': consts.get('UNINITIALIZED'), 'UNKNOWN': consts.get('UNKNOWN')}
    rem0 = consts.get('REMAINING_0')
    if None in inter_states.values() or rem0 is None:
        rep.broken(clause, 'State enumerators missing: %s' % consts)
        return
    unfinished = set(inter_states.values()) | set(range(-128, rem0 + 1))
    for n in names:
        bad = truth[n] & unfinished
        rep.ob(clause, 'K12 state partition', '%s is false for INVALID, UNINITIALIZED, UNKNOWN and every REMAINING_N' % n, not bad,
               fs[n].where, '' if not bad else 'true for unfinished state value(s) %s' % sorted(bad)[:8], '')
    # MATE_IN_0 (king can be captured) is not reported as a mate for the side to move
    m0 = consts.get('MATE_IN_0')
    rep.ob(clause, 'K12 state partition', 'MATE_IN_0 (illegal: king capturable) is not reported by any final predicate',
           all(m0 not in truth[n] for n in names), fs['getMateInN'].where, '', '')
    # setters/getters inverse on the distance
    for setter, getter in (('setMateInN', 'getMateInN'), ('setMatedInN', 'getMatedInN')):
        fset = fb.find1('PositionValue::' + setter)
        if rep.need(clause, fset, 'PositionValue::' + setter) is None:
            continue
        bad = []
        try:
            for n in range(1, 63):
                env = {'this.state': 0, ('v', fset.d['params'][0]['id']): n}
                r1 = ev.run(fset, env)
                s = r1['env']['this.state']
                if s not in truth[getter] or dist[getter].get(s) != n:
                    bad.append((n, s, dist[getter].get(s)))
        except (Unknown, KeyError) as ex:
            rep.broken(clause, 'constant evaluation of %s failed: %s' % (setter, ex))
            continue
        rep.ob(clause, 'K10 inverse', '%s(%s(n)) == n for n = 1..62' % (getter, setter), not bad, fset.where,
               '' if not bad else 'first mismatches (n, state, decoded): %s' % bad[:4], '')
    # probeDTM consults exactly these predicates
    pd = fb.find('TBGenerator::probeDTM')
    if rep.need(clause, pd, 'TBGenerator::probeDTM'):
        for f in pd:
            used = {cname(e).split('::')[-1] for _, _, e in f.events() if e.get('k') == 'call' and cname(e).startswith('PositionValue::')}
            need = set(names)
            rep.ob(clause, 'K5 predicates used', '%s answers only through getMateInN/getMatedInN/isDraw' % f.name,
                   need <= used and not (used - need - {'PositionValue'}), f.where, 'PositionValue members used: %s' % sorted(used), f.sname)
            # `return true` only under one of the predicates
            def is_ret_true(ev2):
                return ev2 is not None and ev2.get('k') == 'ret' and isinstance(ev2.get('e'), dict) and ev2['e'].get('cv') == 1
            for b, i, e in f.find_events(is_ret_true):
                doms = f.dominators().get(b, set())
                guarded = False
                for d in doms:
                    t = f.blocks[d].get('term')
                    c = eff_cond(t) if t else None
                    if c is None:
                        continue
                    ce, pol = strip_not(c)
                    if isinstance(ce, dict) and ce.get('k') == 'call' and cname(ce).split('::')[-1] in names and pol:
                        # b must be on the true side
                        ts_ = f.blocks[d]['succ'][0]
                        if ts_ == b or ts_ in doms:
                            guarded = True
                rep.ob(clause, 'K4 guard', '%s: `return true` only under a final predicate' % f.name, guarded, R.site(f, e), '', f.sname)


# ----------------------------------------------------------------------------- .4

def tb_size_roles(up):
    """(id of the table-size-in-bytes local, id and value of the tablebase-region-size constant) of updateTB:
    the former is initialised from tableSize, the latter is the constant local it is compared with."""
    tt_ids = {v['id'] for _, _, e in up.events() if e.get('k') == 'decl' for v in e.get('vars', [])
              if any((ap(n) or '') == 'this.tableSize' for n in walk(v.get('init') or {}))}
    consts = {v['id']: v['init'].get('cv') for _, _, e in up.events() if e.get('k') == 'decl' for v in e.get('vars', [])
              if isinstance(v.get('init'), dict) and isinstance(v['init'].get('cv'), int)}
    for bid, blk in up.blocks.items():
        c = (blk.get('term') or {}).get('cond')
        for n in walk(c or {}):
            if n.get('k') == 'bin' and n.get('op') in ('<', '<=', '>', '>=') and any(x.get('k') == 'var' and x.get('id') in tt_ids for x in walk(n)):
                for x in walk(n):
                    if x.get('k') == 'var' and x.get('id') in consts and consts[x['id']] >= 65536:
                        return tt_ids, x['id'], consts[x['id']]
    return tt_ids, None, None


def c4_region(fb, rep):
    clause = 'C12.4'
    up = fb.find1(TT + '::updateTB')
    if rep.need(clause, up, 'TranspositionTable::updateTB') is None:
        return
    tt_ids, tb_id, tbsize = tb_size_roles(up)
    if rep.need(clause, tbsize, 'the constant tablebase-region size of updateTB') is None:
        return
    # N of the men guard
    nmen = None
    for bid, blk in up.blocks.items():
        t = blk.get('term')
        c = t.get('cond') if t else None
        for n in walk(c) if c else []:
            if n.get('k') == 'bin' and n.get('op') == '>' and isinstance(n.get('l'), dict) and n['l'].get('k') == 'call' and \
                    cname(n['l']) == 'BitBoard::bitCount' and isinstance(n.get('r'), dict) and 'cv' in n['r']:
                nmen = n['r']['cv']
    rep.need(clause, nmen, 'men guard bitCount(occupied) > N in updateTB')
    slot = (fb.record(TT + '::TTEntryStorage') or {}).get('size')
    rep.need(clause, slot, 'record TranspositionTable::TTEntryStorage')
    # 20 * 64^(N-1) from the TBPosition constructor
    ctor = fb.find('TBPosition::TBPosition')
    base = mult = None
    for f in ctor:
        for b, i, e in f.events():
            if e.get('k') == 'asg' and ap(e.get('l')) == 'this.nPos':
                if e.get('op') == '=' and isinstance(e.get('r'), dict) and 'cv' in e['r']:
                    base = e['r']['cv']
                if e.get('op') == '*=' and isinstance(e.get('r'), dict) and 'cv' in e['r']:
                    mult = e['r']['cv']
    rep.need(clause, base, 'nPos = <const> in TBPosition::TBPosition')
    rep.need(clause, mult, 'nPos *= <const> in TBPosition::TBPosition')
    if None in (tbsize, nmen, slot, base, mult):
        return
    need = base * mult ** (nmen - 1)
    rep.ob(clause, 'K11 constant agreement', 'tbSize >= %d * %d^(N-1) for the N=%d of the men guard' % (base, mult, nmen),
           tbsize >= need, up.where, 'tbSize=%d, largest table=%d bytes' % (tbsize, need), up.sname)
    rep.ob(clause, 'K11 constant agreement', 'tbSize is a whole number of slots and of 4-slot buckets', tbsize % slot == 0 and (tbsize // slot) % 4 == 0,
           up.where, 'tbSize=%d, slot=%d' % (tbsize, slot), up.sname)
    # the size guard precedes the construction of the generator
    def is_make(e):
        return e is not None and e.get('k') == 'call' and 'make_unique<TBGenerator' in (e.get('n') or '')

    guard_blocks = []
    for bid, blk in up.blocks.items():
        t = blk.get('term')
        c = eff_cond(t) if t else None
        if c is None:
            continue
        ce, pol = strip_not(c)
        if isinstance(ce, dict) and ce.get('k') == 'bin' and ce.get('op') in ('<', '<=') and \
                any(n.get('k') == 'var' and n.get('id') in tt_ids for n in walk(ce.get('l'))) and \
                any(n.get('k') == 'var' and n.get('id') == tb_id for n in walk(ce.get('r'))):
            guard_blocks.append((bid, pol))
    rep.floor(clause, 'size guard ttSize < tbSize + margin', len(guard_blocks), 1)
    for b, i, e in up.find_events(is_make):
        ok = False
        for gb, pol in guard_blocks:
            fs_ = up.blocks[gb]['succ'][1] if pol else up.blocks[gb]['succ'][0]   # guard false => big enough
            doms = up.dominators().get(b, set())
            if fs_ == b or fs_ in doms:
                ok = True
        rep.ob(clause, 'K2 must-precede', 'updateTB: generator constructed only when the table is large enough', ok, R.site(up, e), '', up.sname)
    # on the success path the reserved size is tableSize - tbSize/sizeof(slot)
    for b, i, e in up.calls(TT + '::setUsedSize'):
        a = (e.get('args') or [None])[0]
        if isinstance(a, dict) and a.get('k') == 'bin' and a.get('op') == '-':
            r = a.get('r')
            ok = isinstance(r, dict) and r.get('cv') == tbsize // slot
            rep.ob(clause, 'K11 constant agreement', 'updateTB reserves exactly tbSize/sizeof(slot) entries', ok, R.site(up, e),
                   'reserved entries: %s, expected %d' % (r.get('cv') if isinstance(r, dict) else '?', tbsize // slot), up.sname)
    # TTStorage::resize puts the region at the top of the table
    rs = fb.find1('TTStorage::resize')
    if rep.need(clause, rs, 'TTStorage::resize'):
        ok = False
        for b, i, e in rs.events():
            if e.get('k') == 'asg' and ap(e.get('l')) == 'this.idx0':
                r = e.get('r')
                if isinstance(r, dict) and r.get('k') == 'bin' and r.get('op') == '-' and \
                        isinstance(r.get('l'), dict) and r['l'].get('k') == 'call' and cname(r['l']) == TT + '::byteSize':
                    rr = r.get('r')
                    rr = rr.get('e') if isinstance(rr, dict) and rr.get('k') == 'cast' else rr
                    if isinstance(rr, dict) and rr.get('k') == 'var' and rr.get('vk') == 'param':
                        ok = True
        rep.ob(clause, 'K11 region placement', 'TTStorage::resize: idx0 = byteSize() - size', ok, rs.where, '', rs.sname)
    # getByte/putByte address bytes through the slot array without further offset
    for nm in ('getByte', 'putByte'):
        g = fb.find1(TT + '::' + nm)
        rep.need(clause, g, TT + '::' + nm)


# ----------------------------------------------------------------------------- .5 probe scope

def c5_probe_scope(fb, rep, clause):
    """K4: the table index holds piece squares and the side to move only.  Castling rights change the value of a
    position and are not part of the index, so the per-probe import must refuse positions that carry any:
    every path on which probeDTM answers (`return true`) has passed a test that the castle mask is zero - in
    probeDTM itself or in the import routine whose success it requires (TBPosition::setPosition, where every
    non-false return must then be behind that test)."""
    def castle_zero(g, side):
        t = g
        while isinstance(t, dict) and t.get('k') == 'cast':
            t = t.get('e')
        if isinstance(t, dict) and t.get('k') == 'call' and cname(t) == 'Position::getCastleMask':
            return side is False
        if isinstance(t, dict) and t.get('k') == 'bin' and t.get('op') in ('==', '!='):
            for x, y in ((t['l'], t['r']), (t['r'], t['l'])):
                x0 = x
                while isinstance(x0, dict) and x0.get('k') == 'cast':
                    x0 = x0.get('e')
                y0 = y
                while isinstance(y0, dict) and y0.get('k') == 'cast':
                    y0 = y0.get('e')
                if isinstance(x0, dict) and x0.get('k') == 'call' and cname(x0) == 'Position::getCastleMask' and isinstance(y0, dict) and y0.get('cv') == 0:
                    return (t['op'] == '==') == bool(side)
        return False

    def guarded_returns(f):
        """(all non-false returns, those guarded by a castle-mask-is-zero test)"""
        rets, ok = [], []
        for b, i, e in f.events():
            if e.get('k') == 'ret' and e.get('e') is not None and (e['e'].get('cv') != 0 if 'cv' in e['e'] else True):
                rets.append(e)
                gs = G.guard_trees(f, set(f.blocks), b)
                if any(castle_zero(g, sd) for g, sd in gs):
                    ok.append(e)
        return rets, ok
    probes = [f for f in fb.funcs.values() if f.has_cfg and f.sname == 'TBGenerator::probeDTM']
    rep.floor(clause, 'instantiations of TBGenerator::probeDTM', len(probes), 2)
    sp = fb.find1('TBPosition::setPosition')
    if rep.need(clause, sp, 'TBPosition::setPosition') is None:
        return
    sr, sok = guarded_returns(sp)
    import_ok = bool(sr) and len(sr) == len(sok)
    for f in sorted(probes, key=lambda x: x.key):
        rets, ok = guarded_returns(f)
        hits = [e for e in rets if e['e'].get('cv') == 1]
        # hits that rely on the import routine: guarded by setPosition(...) having succeeded
        via_import = []
        for e in hits:
            b = next(bb for bb, ii, ev in f.events() if ev is e)
            gs = G.guard_trees(f, set(f.blocks), b)
            if any(any(n.get('k') == 'call' and cname(n) == 'TBPosition::setPosition' for n in walk(g)) and sd for g, sd in gs):
                via_import.append(e)
        good = all((e in ok) or (e in via_import and import_ok) for e in hits)
        rep.ob(clause, 'K4 probe scope', '%s answers only for positions without castling rights (tested here or in the position import it requires)' % (f.name if '<' in f.name else f.sname),
               bool(hits) and good, f.where, '%d answering returns, %d behind a successful import; import: %d of %d successful returns behind a castle-mask test' % (
                   len(hits), len(via_import), len(sok), len(sr)), f.sname)


# ----------------------------------------------------------------------------- .6 block skipping

def c6_block_skip(fb, rep, clause):
    """K11 constant agreement in the retrograde pass of TBGenerator::generate: the per-block "nothing new was mated
    here" flags cover blocks of 2^S indices; a block is skipped with `if ((idx & M) == 0 && !flag[idx >> S])
    { idx += K; continue; }` inside `for (...; idx++)`.  The skip lands on the first index of the next block exactly
    when K + 1 == M + 1 == 2^S, and the flag vector has nPos / 2^S entries.  Any other combination silently leaves
    positions out of the retrograde pass (wrong distances, wins recorded as draws)."""
    gens = [f for f in fb.find('TBGenerator::generate')]
    n = 0
    for f in gens:
        tag = f.name
        for bid, blk in f.blocks.items():
            if bid in f.dead:
                continue
            for e in blk['ev']:
                if not (e.get('k') == 'asg' and e.get('op') == '+=' and isinstance(e.get('l'), dict) and e['l'].get('k') == 'var' and isinstance(e.get('r'), dict) and 'cv' in e['r']):
                    continue
                vid = e['l']['id']
                K = e['r']['cv']
                # guard (idx & M) == 0 and a flag test flag[idx >> S]
                gt = G.guard_trees(f, set(f.blocks), bid, skip_loops=True)
                M = S = None
                for g, sd in gt:
                    for nd in walk(g):
                        if nd.get('k') == 'bin' and nd.get('op') == '&' and (_s(nd.get('l')) or {}).get('id') == vid and 'cv' in (_s(nd.get('r')) or {}):
                            M = _s(nd['r'])['cv']
                        if nd.get('k') == 'bin' and nd.get('op') == '>>' and (_s(nd.get('l')) or {}).get('id') == vid and 'cv' in (_s(nd.get('r')) or {}):
                            S = _s(nd['r'])['cv']
                if M is None:
                    continue
                # the enclosing for loop increments the same variable by one
                h = G.enclosing_loop_stmt(f, bid)
                inc = any(ev.get('k') == 'incdec' and ev.get('op') == '++' and isinstance(ev.get('e'), dict) and ev['e'].get('id') == vid for b2, blk2 in f.blocks.items() for ev in blk2['ev'])
                cont = (blk.get('term') or {}).get('c') == 'ContinueStmt' or any((f.blocks[s_].get('term') or {}).get('c') == 'ContinueStmt' for s_ in blk['succ'])
                n += 1
                ok = inc and K + 1 == M + 1 and (S is None or (1 << S) == M + 1) and (M & (M + 1)) == 0
                rep.ob(clause, 'K11 constant agreement', '%s: the block skip advances to the first index of the next block (skip + loop increment = block size = mask + 1 = 2^shift)' % tag,
                       ok, '%s:%s' % (f.file, e.get('ln')), 'skip %s, mask %s, shift %s, loop increment present: %s' % (K, M, S, inc), f.sname)
        # the flag vectors are sized nPos / block size
    rep.floor(clause, 'block-skip sites in TBGenerator::generate', n, 2)


def _s(t):
    while isinstance(t, dict) and t.get('k') == 'cast':
        t = t.get('e')
    return t


# ----------------------------------------------------------------------------- .7

def c7_dedup_filters(fb, rep, clause):
    """K12 adjacent-duplicate filters.  Successor and predecessor lists are sorted canonical indices; symmetric positions
    yield the same index twice, and both the successor count (REMAINING_N) and the retrograde decrements must count
    each distinct neighbour once.  Every filter `i > c && L[i] == L[i - k]` must make the comparison for *every* i >= k:
    c == k - 1 exactly (smaller reads before the list, larger lets a duplicate through and the counter never reaches
    zero: a lost position stays a draw)."""
    cands = [f for f in fb.funcs.values() if f.has_cfg and f.sname == 'TBGenerator::generate']
    if rep.need(clause, cands, 'TBGenerator::generate') is None:
        return
    n = 0
    # lists deduplicated where they are produced need no filter where they are walked: TbMoveList::sort() shrinks the list to
    # the end returned by std::unique (adjacent duplicates of a sorted range are all duplicates)
    srt = fb.find1('TbMoveList::sort')
    at_source = False
    if srt is not None and srt.has_cfg:
        for _, _, e in srt.events():
            if e.get('k') == 'asg' and e.get('op') == '=' and ap(e.get('l')) == 'this.size' and \
                    any(isinstance(x, dict) and x.get('k') == 'call' and cname(x) == 'std::unique' for x in walk(e.get('r'))):
                first_sort = [1 for _, _, e2 in srt.events() if e2.get('k') == 'call' and cname(e2) == 'std::sort']
                at_source = bool(first_sort) and srt.path_avoiding((srt.entry, -1), lambda x, e=e: x is e, lambda x: x.get('k') == 'call' and cname(x) == 'std::sort') is None
    if at_source:
        rep.ob(clause, 'K12 adjacent-duplicate filter', 'TbMoveList::sort removes duplicates (sorted, then cut at the end std::unique returns), so walkers need no filter', True, srt.where, '', srt.sname)
    for f in sorted(cands, key=lambda x: x.name):
        k_site = 0
        for bid, blk in sorted(f.blocks.items()):
            t = blk.get('term') or {}
            if t.get('c') != 'IfStmt' or t.get('cond') is None or bid in f.dead:
                continue
            conj = []
            todo = [t['cond']]
            while todo:
                a = _strip12(todo.pop())
                if isinstance(a, dict) and a.get('k') == 'bin' and a.get('op') == '&&':
                    todo += [a.get('r'), a.get('l')]
                else:
                    conj.append(a)
            for c in conj:
                eq = _adjacent_eq(c)
                if eq is None:
                    continue
                lst, ivar, k = eq
                k_site += 1
                n += 1
                # the index guard among the other conjuncts
                bound = None
                for g in conj:
                    if isinstance(g, dict) and g.get('k') == 'bin' and g.get('op') in ('>', '>=') and (_strip12(g.get('l')) or {}).get('id') == ivar and 'cv' in (_strip12(g.get('r')) or {}):
                        bound = _strip12(g['r'])['cv'] + (1 if g['op'] == '>' else 0)      # comparison made for i >= bound
                rep.ob(clause, 'K12 adjacent-duplicate filter', '%s: duplicate filter #%d compares every element that has a predecessor with it' % (f.name.replace('TBGenerator', 'TBGen'), k_site),
                       bound == k, '%s:%s' % (f.file, t.get('ln') or f.line), 'compares L[i] with L[i-%d] for i >= %s' % (k, bound), f.sname)
    if not at_source:
        rep.floor(clause, 'adjacent-duplicate filters in TBGenerator::generate', n, 4)
    # ... and every loop that walks a neighbour list in generate() has one: the list producers do not remove duplicates
    for f in sorted(cands, key=lambda x: x.name):
        loops = f.natural_loops()
        k_loop = 0
        for hdr, body in sorted(loops.items()):
            t = f.blocks[hdr].get('term') or {}
            c = _strip12(t.get('cond'))
            if not (t.get('c') == 'ForStmt' and isinstance(c, dict) and c.get('k') == 'bin' and c.get('op') == '<'):
                continue
            r = _strip12(c.get('r'))
            if not (isinstance(r, dict) and r.get('k') == 'call' and cname(r).split('::')[-1] == 'getSize' and 'TbMoveList' in cname(r)):
                continue
            lst = (_strip12(r.get('recv')) or {}).get('id')
            k_loop += 1
            has = False
            for b in body:
                bt = f.blocks[b].get('term') or {}
                if bt.get('c') == 'IfStmt' and bt.get('cond') is not None:
                    todo = [bt['cond']]
                    while todo:
                        a = _strip12(todo.pop())
                        if isinstance(a, dict) and a.get('k') == 'bin' and a.get('op') == '&&':
                            todo += [a.get('r'), a.get('l')]
                        else:
                            eq = _adjacent_eq(a)
                            if eq is not None and eq[0] == lst:
                                has = True
            rep.ob(clause, 'K12 adjacent-duplicate filter', '%s: neighbour-list loop #%d skips adjacent duplicates' % (f.name.replace('TBGenerator', 'TBGen'), k_loop), has or at_source,
                   '%s:%s' % (f.file, t.get('ln')), 'deduplicated by TbMoveList::sort' if at_source and not has else '', f.sname)
        if f.has_cfg and len(f.blocks) > 20:
            rep.floor(clause, 'neighbour-list loops in %s' % f.name.replace('TBGenerator', 'TBGen'), k_loop, 3)
    # adjacent comparison finds all duplicates only in a sorted list: both list producers sort before returning
    for nm in ('TBPosition::getMoves', 'TBPosition::getUnMoves'):
        g = fb.find1(nm)
        if rep.need(clause, g, nm) is None:
            continue
        pid = (g.d.get('params') or [{}])[0].get('id')

        def is_sort(e, _pid=pid):
            return e is not None and e.get('k') == 'call' and cname(e).split('::')[-1] == 'sort' and (_strip12(e.get('recv')) or {}).get('id') == _pid

        def is_add(e, _pid=pid):
            return e is not None and e.get('k') == 'call' and cname(e).split('::')[-1] in ('addMove', 'add', 'push_back') and (_strip12(e.get('recv')) or {}).get('id') == _pid
        adds = [(b, i) for b, i, e in g.events() if is_add(e)]
        unsorted = [pos for pos in adds if g.path_avoiding(pos, R.at_exit, is_sort) is not None]
        rep.ob(clause, 'K2 must-pass-through', '%s sorts the list after the last element was added, on every path' % nm.split('::')[-1], bool(adds) and not unsorted, g.where,
               '%d additions, %d can reach the exit unsorted' % (len(adds), len(unsorted)), g.sname)


def _strip12(t):
    while isinstance(t, dict) and t.get('k') == 'cast':
        t = t.get('e')
    return t


def _adjacent_eq(c):
    """(list id, index var id, k) if c is `L[i] == L[i - k]` (either order)"""
    c = _strip12(c)
    if not isinstance(c, dict):
        return None
    if c.get('k') == 'bin' and c.get('op') == '==':
        sides = [c.get('l'), c.get('r')]
    elif c.get('k') == 'call' and c.get('op') == '==':
        sides = ([c['recv']] if c.get('recv') is not None else []) + c.get('args', [])
    else:
        return None
    if len(sides) != 2:
        return None
    acc = []
    for s_ in sides:
        s_ = _strip12(s_)
        if isinstance(s_, dict) and s_.get('k') == 'call' and s_.get('op') == '[]' and s_.get('recv') is not None and s_.get('args'):
            acc.append((_strip12(s_['recv']), _strip12(s_['args'][0])))
        elif isinstance(s_, dict) and s_.get('k') == 'idx':
            acc.append((_strip12(s_.get('b')), _strip12(s_.get('i'))))
        else:
            return None
    (l0, i0), (l1, i1) = acc
    if not (isinstance(l0, dict) and isinstance(l1, dict) and l0.get('k') == 'var' and l0.get('id') == l1.get('id')):
        return None
    for a, b in ((i0, i1), (i1, i0)):
        if isinstance(a, dict) and a.get('k') == 'var' and isinstance(b, dict) and b.get('k') == 'bin' and b.get('op') == '-' and \
                (_strip12(b.get('l')) or {}).get('id') == a.get('id') and 'cv' in (_strip12(b.get('r')) or {}):
            return (l0.get('id'), a.get('id'), _strip12(b['r'])['cv'])
    return None


# ----------------------------------------------------------------------------- .8

def c8_uncapture_order(fb, rep, clause):
    """K10 agreement between TBIndex::setSquare and its caller.  Absent pieces are encoded on the black king's square; setSquare
    on the black king (piece number nWhite) drags every piece standing on its old square along, and setSquare on the white
    king (piece number 0) mirrors the whole board.  When getUnMoves un-captures - the mover i goes back to fromSq and an absent
    piece j re-appears on the square the mover leaves - the order of the two calls is therefore forced for the two kings:
    the black king must be moved *first* (else the re-appearing piece is dragged along and the un-capture collapses into the
    plain king un-move), the white king *last* (else `to` is stale after the mirroring).  The guard that selects the order is
    evaluated for every piece number of a 4-man table."""
    ss = fb.find1('TBIndex::setSquare')
    gu = fb.find1('TBPosition::getUnMoves')
    if rep.need(clause, ss, 'TBIndex::setSquare') is None or rep.need(clause, gu, 'TBPosition::getUnMoves') is None:
        return
    # premise: setSquare special-cases piece 0 (mirrors) and piece nWhite (drags)
    conds = [show(eff_cond(blk['term']), 80) for bid, blk in ss.blocks.items() if (blk.get('term') or {}).get('c') == 'IfStmt']
    prem = any('== 0' in c for c in conds) and any('nWhite' in c and '==' in c for c in conds)
    rep.ob(clause, 'K10 premise', 'TBIndex::setSquare treats piece 0 (white king: mirrors) and piece nWhite (black king: drags absent pieces) specially', prem, ss.where, str(conds), ss.sname)
    # the un-capture sites: blocks that place two different piece numbers one after the other, one of them the re-appearing
    # piece (a number taken from the set of absent pieces with extractSquare), the other the mover.  Which block runs for a
    # given mover is decided by evaluating its guards, so an if / else, a conditional swap or no test at all are judged alike.
    decls = {v['id']: v for _, _, e in gu.events() if e.get('k') == 'decl' for v in e.get('vars', [])}
    reapp = {vid for vid, v in decls.items() if v.get('init') is not None and any(isinstance(n, dict) and n.get('k') == 'call' and cname(n) == 'BitBoard::extractSquare' for n in walk(v['init']))}
    sites = []
    for bid, blk in sorted(gu.blocks.items()):
        calls = [e for e in blk['ev'] if e.get('k') == 'call' and cname(e) == 'TBIndex::setSquare' and e.get('args')]
        ids = [(_strip12(c['args'][0]) or {}).get('id') for c in calls]
        if len(calls) == 2 and None not in ids and len(set(ids)) == 2 and len(set(ids) & reapp) == 1:
            sites.append((bid, ids, calls))
    found = len(sites)
    if found:
        movers = {i_ for _, ids, _ in sites for i_ in ids if i_ not in reapp}
        if len(movers) != 1:
            rep.broken(clause, 'the un-capture sites of getUnMoves do not move one piece variable')
            return
        mover = next(iter(movers))
        bad = []
        for N in (1, 2, 3):
            for i in range(0, 5):
                leaf = lambda t, _i=i, _N=N: ('v', _i) if (t.get('k') == 'var' and t.get('id') == mover) else (('v', _N) if ap(t) == 'this.nWhite' else None)
                live = [(bid, ids) for bid, ids, _ in sites if not G.excluded_under(gu, bid, leaf)]
                if not live:
                    continue        # this piece number is not un-captured at all (kings are never absent; nothing to order)
                for bid, ids in live:
                    mover_first = ids[0] == mover
                    if i == N and not mover_first:
                        bad.append('black king (piece %d of nWhite=%d) is moved after the re-appearing piece' % (i, N))
                    if i == 0 and mover_first:
                        bad.append('white king (piece 0) is moved before the re-appearing piece is placed')
        rep.ob(clause, 'K10 call-order agreement', 'getUnMoves: un-capture moves the black king first and the white king last', not bad, '%s:%s' % (gu.file, sites[0][2][0].get('ln')),
               '%d un-capture site(s); %s' % (found, sorted(set(bad))[:2]), gu.sname)
    rep.floor(clause, 'un-capture sites in getUnMoves', found, 1)
    # the same two constraints where a whole position is placed: TBPosition::setPosition (probe path only - the generated
    # table is unaffected, every probe of a position with a real piece on the black king's initial index square is)
    sp = fb.find1('TBPosition::setPosition')
    if rep.need(clause, sp, 'TBPosition::setPosition') is not None:
        calls = [(b, i, e) for b, i, e in sp.events() if e.get('k') == 'call' and cname(e) == 'TBIndex::setSquare' and e.get('args')]
        bk = [c for c in calls if ap(_strip12(c[2]['args'][0])) == 'this.nWhite']
        wk = [c for c in calls if (_strip12(c[2]['args'][0]) or {}).get('cv') == 0]
        other = [c for c in calls if c not in bk and c not in wk]
        rep.floor(clause, 'piece placements in TBPosition::setPosition', len(other), 1)
        ok_b = bool(bk) and all(sp.path_avoiding((sp.entry, -1), lambda x, _e=c[2]: x is _e, lambda x: any(x is k_[2] for k_ in bk)) is None for c in other + wk)
        rep.ob(clause, 'K10 call-order agreement', 'setPosition places the black king before any other piece (moving it later drags the pieces standing on its old square)', ok_b,
               R.site(sp, (bk or calls)[0][2]), '%d black-king placement(s), %d other' % (len(bk), len(other)), sp.sname)
        ok_w = bool(wk) and all(sp.path_avoiding((c[0], c[1]), lambda x: any(x is k_[2] for k_ in other + bk), lambda x: False) is None for c in wk)
        rep.ob(clause, 'K10 call-order agreement', 'setPosition places the white king last (placing it mirrors the board)', ok_w,
               R.site(sp, (wk or calls)[0][2]), '%d white-king placement(s)' % len(wk), sp.sname)


# ----------------------------------------------------------------------------- .9

def c9_all_men_placed(fb, rep, clause):
    """K2/K12 a probe answers for the position asked about.  TBPosition::setPosition copies the position's piece sets, takes
    one man out of them for every slot of the table's material class, and may report success only if nothing is left: a
    man that found no slot means the position is not of this class, and answering anyway returns the value of a smaller,
    different position (the search then trusts it as exact).  So between the last extraction and every successful return
    there is a sweep whose counter covers every piece type (first king .. last pawn, evaluated from the loop's own init /
    bound / step) and which fails on a non-empty remainder - tested per type or accumulated with `|`."""
    f = fb.find1('TBPosition::setPosition')
    if rep.need(clause, f, 'TBPosition::setPosition') is None:
        return
    lo, hi = fb.const('Piece::WKING'), fb.const('Piece::BPAWN')
    if rep.need(clause, None if None in (lo, hi) else 1, 'Piece::WKING / Piece::BPAWN') is None:
        return
    # the working copy: the array local whose elements are assigned from Position::pieceTypeBB
    arr = set()
    for b, i, e in f.events():
        if e.get('k') == 'asg' and e.get('op') == '=' and isinstance(_strip12(e.get('l')), dict) and _strip12(e['l']).get('k') == 'idx' and \
                any(isinstance(n, dict) and n.get('k') == 'call' and cname(n) == 'Position::pieceTypeBB' for n in walk(e.get('r'))):
            base = _strip12(_strip12(e['l']).get('b'))
            if isinstance(base, dict) and base.get('k') == 'var':
                arr.add(base['id'])
    if rep.need(clause, arr, 'the working copy of the piece sets in setPosition') is None:
        return

    def reads_arr(t):
        return any(isinstance(n, dict) and n.get('k') == 'idx' and (_strip12(n.get('b')) or {}).get('id') in arr for n in walk(t))
    takes = [(b, i, e) for b, i, e in f.events() if e.get('k') == 'call' and cname(e) == 'BitBoard::extractSquare' and reads_arr(e)]
    rep.floor(clause, 'extractions from the working copy', len(takes), 1)
    is_fail = lambda e: e is not None and e.get('k') == 'ret' and (_strip12(e.get('e')) or {}).get('cv') == 0
    succ_rets = [(b, i, e) for b, i, e in f.events() if e.get('k') == 'ret' and not is_fail(e)]
    rep.floor(clause, 'successful returns of setPosition', len(succ_rets), 1)
    decls = {v['id']: v for _, _, e in f.events() if e.get('k') == 'decl' for v in e.get('vars', [])}
    loops = f.natural_loops()
    # accumulators: locals or-ed with elements of the copy
    accs = set()
    for b, i, e in f.events():
        if e.get('k') == 'asg' and e.get('op') == '|=' and reads_arr(e.get('r')) and (_strip12(e.get('l')) or {}).get('k') == 'var':
            accs.add(_strip12(e['l'])['id'])

    def const_ev(t, env, depth=0):
        t = _strip12(t)
        if not isinstance(t, dict) or depth > 6:
            return None
        if 'cv' in t:
            return t['cv']
        if t.get('k') == 'var':
            if t.get('id') in env:
                return env[t['id']]
            d = decls.get(t.get('id'))
            return const_ev(d.get('init'), env, depth + 1) if d is not None and d.get('init') is not None else None
        if t.get('k') == 'bin':
            a, b_ = const_ev(t.get('l'), env, depth + 1), const_ev(t.get('r'), env, depth + 1)
            if a is None or b_ is None:
                return None
            return {'+': a + b_, '-': a - b_, '<': a < b_, '<=': a <= b_, '>': a > b_, '>=': a >= b_, '!=': a != b_, '==': a == b_}.get(t.get('op'))
        return None

    def sweep_values(h):
        """values the counter of loop h takes, or None"""
        body = loops[h]
        cond = (f.blocks[h].get('term') or {}).get('cond')
        steps = {}
        for b in body:
            for e in f.blocks[b]['ev']:
                if e.get('k') == 'incdec' and (_strip12(e.get('e')) or {}).get('k') == 'var':
                    steps.setdefault(_strip12(e['e'])['id'], []).append(1 if e.get('op') == '++' else -1)
        if len(steps) != 1 or cond is None:
            return None, None
        (vid, st), = steps.items()
        if len(st) != 1 or vid not in decls or decls[vid].get('init') is None:
            return None, None
        x = const_ev(decls[vid]['init'], {})
        if x is None:
            return None, None
        vals = []
        for _ in range(64):
            c = const_ev(cond, {vid: x})
            if c is None:
                return None, None
            if not c:
                break
            vals.append(x)
            x += st[0]
        return vid, vals
    sweeps = []
    for h, body in sorted(loops.items()):
        vid, vals = sweep_values(h)
        if vals is None:
            continue
        # a failing test of the remainder indexed by the counter inside the loop (form a), or an accumulation that is tested
        # after the loop with the failure as the only outcome (form b)
        tested = False
        for b in body:
            t = f.blocks[b].get('term') or {}
            c = t.get('cond')
            if c is not None and any(isinstance(n, dict) and n.get('k') == 'idx' and (_strip12(n.get('b')) or {}).get('id') in arr and
                                     (_strip12(n.get('i')) or {}).get('id') == vid for n in walk(c)):
                c0, pol = strip_not(eff_cond(t))
                tgt = f.blocks[b]['succ'][0] if pol else f.blocks[b]['succ'][1]
                if any(is_fail(e) for e in f.blocks[tgt]['ev']):
                    tested = True
        acc_here = {(_strip12(e.get('l')) or {}).get('id') for b in body for e in f.blocks[b]['ev'] if e.get('k') == 'asg' and e.get('op') == '|=' and
                    any(isinstance(n, dict) and n.get('k') == 'idx' and (_strip12(n.get('b')) or {}).get('id') in arr and (_strip12(n.get('i')) or {}).get('id') == vid for n in walk(e.get('r')))}
        acc_tested = False
        for b, blk in f.blocks.items():
            t = blk.get('term') or {}
            c = _strip12(t.get('cond')) if t.get('cond') is not None else None
            if c is not None and b not in body and any(isinstance(n, dict) and n.get('k') == 'var' and n.get('id') in acc_here for n in walk(c)) and len(blk['succ']) == 2:
                c0, pol = strip_not(eff_cond(t))
                tgt = blk['succ'][0] if pol else blk['succ'][1]
                if any(is_fail(e) for e in f.blocks[tgt]['ev']) and h in f.dominators().get(b, set()):
                    acc_tested = True
        if tested or acc_tested:
            sweeps.append((h, vals))
    covering = [h for h, vals in sweeps if set(range(lo, hi + 1)) <= set(vals)]
    rep.ob(clause, 'K12 finite evaluation', 'setPosition: a sweep over every piece type (%d..%d) fails on a man that found no slot' % (lo, hi), bool(covering), f.where,
           'remainder sweeps found: %s' % [(f.blocks[h]['term'].get('ln'), '%s..%s' % (v[0], v[-1]) if v else 'empty') for h, v in sweeps], f.sname)
    if covering:
        n = 0
        for tb, ti, te in takes:
            for rb, ri, re_ in succ_rets:
                n += 1
                w = None
                for h in covering[:1]:
                    w = _path_avoiding_block(f, (tb, ti), re_, h)
                rep.ob(clause, 'K2 must-pass-through', 'setPosition: no successful return after an extraction without passing the remainder sweep', w is None,
                       R.site(f, re_), '' if w is None else 'path that skips the sweep: ' + ' -> '.join('B%s' % x for x in w[-8:]), f.sname)


# ----------------------------------------------------------------------------- .10

def c10_first_sweep_defines_every_slot(fb, rep, clause):
    """K2 the table is generated into memory that held something else before (inside the transposition table: old hash
    entries).  Every later pass reads `table[idx]` for every index and reacts to what it finds, so the first sweep over the
    index space must *store* a value for every index it visits - also for the indices that are not canonical positions
    (INVALID); a slot left as it was is read back as whatever its stale bytes decode to (UNKNOWN, "mated in k"), and the
    error spreads through the retrograde passes.  On every path from the head of the first sweep to its increment there is
    a TBStorage::store (paths that leave the function - the time check - excepted)."""
    cands = [f for f in fb.funcs.values() if f.has_cfg and f.sname == 'TBGenerator::generate' and len(f.blocks) > 30]
    if rep.need(clause, cands, 'TBGenerator::generate') is None:
        return
    n = 0
    for f in sorted(cands, key=lambda x: x.name):
        decls = {v['id']: (b, v) for b, i, e in f.events() if e.get('k') == 'decl' for v in e.get('vars', [])}
        npos = {vid for vid, (b, v) in decls.items() if any(isinstance(x, dict) and x.get('k') == 'call' and cname(x).split('::')[-1] == 'nPositions' for x in walk(v.get('init')))}
        loops = f.natural_loops()
        sweeps = []
        for h, body in loops.items():
            if any(h in loops[o] and o != h for o in loops):
                continue
            c = (f.blocks[h].get('term') or {}).get('cond')
            if c is not None and any(isinstance(x, dict) and x.get('k') == 'var' and x.get('id') in npos for x in walk(c)):
                sweeps.append((h, body))
        if rep.need(clause, sweeps, 'the sweeps over the index space in ' + f.name) is None:
            continue
        h, body = min(sweeps, key=lambda x: (f.blocks[x[0]].get('term') or {}).get('ln') or 0)
        n += 1
        # the latch: the block of the loop that jumps back to the header
        latches = [b for b in body if h in f.blocks[b]['succ'] and b != h]
        is_store = lambda e: e is not None and e.get('k') == 'call' and cname(e).split('::')[-1] == 'store' and 'Storage' in cname(e)
        # a path header -> latch inside the body without a store
        from collections import deque
        start = [s_ for s_ in f.blocks[h]['succ'] if s_ in body]
        seen, dq, leak = set(), deque((s_, (s_,)) for s_ in start), None
        while dq and leak is None:
            b, trail = dq.popleft()
            if b in seen:
                continue
            seen.add(b)
            if any(is_store(e) for e in f.blocks[b]['ev']):
                continue
            if b in latches:
                leak = trail
                break
            for s_ in f.blocks[b]['succ']:
                if s_ in body and s_ != h:
                    dq.append((s_, trail + (s_,)))
        rep.ob(clause, 'K2 must-pass-through', '%s: the first sweep stores a value for every index it visits' % f.name.replace('TBGenerator', 'TBGen'), leak is None,
               '%s:%s' % (f.file, (f.blocks[h].get('term') or {}).get('ln')), '' if leak is None else 'iteration without a store: ' + ' -> '.join('B%s@%s' % (x, f.block_line(x)) for x in leak[-6:]), f.sname)
    rep.floor(clause, 'first sweeps of TBGenerator::generate', n, 2)


# ----------------------------------------------------------------------------- .11

def c11_canonical_index_compared_after_sorting(fb, rep, clause):
    """K2 one position, one index.  TBIndex::canonize() picks, for a white king on the long diagonal, the smaller of the index
    and its mirror image.  The two can be compared only in normal form: when the class has two equal men the mirrored
    placement has to be sorted first, otherwise `sorted(mirror) < original <= unsorted(mirror)` keeps a non-canonical index,
    the same position then lives in two slots and the retrograde passes mark one of them.  So no call that re-orders the
    pieces (sortPieces) may follow the comparison with the saved index."""
    f = fb.find1('TBIndex::canonize')
    if rep.need(clause, f, 'TBIndex::canonize') is None:
        return
    saved = {v['id'] for _, _, e in f.events() if e.get('k') == 'decl' for v in e.get('vars', []) if ap(_strip12(v.get('init'))) == 'this.idx'}
    cmps = []
    for b, i, e in f.events():
        if e.get('k') == 'asg' and ap(e.get('l')) == 'this.idx' and any(isinstance(n, dict) and n.get('k') == 'var' and n.get('id') in saved for n in walk(e.get('r'))):
            cmps.append((b, i, e))
    is_sort = lambda e: e is not None and e.get('k') == 'call' and cname(e).split('::')[-1] == 'sortPieces'
    n_sort = sum(1 for _, _, e in f.events() if is_sort(e))
    rep.floor(clause, 'comparisons of the index with its saved mirror alternative', len(cmps), 1)
    rep.floor(clause, 'sortPieces calls in canonize', n_sort, 2)
    late = [(b, i, e) for b, i, e in cmps if f.path_avoiding((b, i), is_sort, lambda x: False) is not None]
    rep.ob(clause, 'K2 must-precede', 'canonize: the pieces are not re-ordered after the index was compared with its mirror alternative', not late,
           R.site(f, late[0][2]) if late else f.where, '%d comparison(s), %d followed by a sortPieces call' % (len(cmps), len(late)), f.sname)


# ----------------------------------------------------------------------------- .12

def c12_installed_table_is_used(fb, rep, clause):
    """K2 an installed table answers for its class whatever the next search's time budget is.  updateTB() first asks whether the
    root is already covered by the installed table and only then whether there is time to generate a new one.  A `return
    false` that depends on the time budget and can be reached without that question leaves a complete table unused: the
    search does not probe it and reports a heuristic score where the exact distance is available."""
    f = fb.find1('TranspositionTable::updateTB')
    if rep.need(clause, f, 'TranspositionTable::updateTB') is None:
        return
    lim = next((p_['id'] for p_ in f.d.get('params', []) if 'RelaxedShared' in (p_.get('t') or '')), None)
    if rep.need(clause, lim, 'the time-limit parameter of updateTB') is None:
        return
    # the question: `tbGen && tbGen->probeDTM(root)` - with no table installed the null test alone has answered it
    asked = lambda e: e is not None and e.get('k') == 'call' and (cname(e).split('::')[-1] == 'probeDTM' or
                                                                 (cname(e).split('::')[-1] in ('operator bool', 'get') and ap(e.get('recv')) == 'this.tbGen' and not e.get('args')))
    n_q = sum(1 for _, _, e in f.events() if e.get('k') == 'call' and cname(e).split('::')[-1] == 'probeDTM')
    rep.floor(clause, 'questions "is the root in the installed table" in updateTB', n_q, 1)
    n = 0
    for b, blk in sorted(f.blocks.items()):
        rets = [e for e in blk['ev'] if e.get('k') == 'ret' and (_strip12(e.get('e')) or {}).get('cv') == 0]
        if not rets or b in f.dead:
            continue
        gs = list(G.guard_trees(f, set(f.blocks), b)) + G._whole_conditions(f, set(f.blocks), b)
        if not any(isinstance(x, dict) and x.get('k') == 'var' and x.get('id') == lim for c, _ in gs for x in walk(c)):
            continue
        n += 1
        w = f.path_avoiding((f.entry, -1), lambda x, _r=rets[0]: x is _r, asked)
        rep.ob(clause, 'K2 must-precede', 'updateTB: "not enough time to generate" is decided only after "the root is already in the installed table"', w is None,
               R.site(f, rets[0]), '' if w is None else 'reachable without the question: ' + ' -> '.join('B%s@%s' % x for x in w[-5:]), f.sname)
    rep.floor(clause, 'time-dependent refusals in updateTB', n, 1)
