"""C14 - Clear Hash equals fresh start.  Clauses decided:
 .1 K13 reset completeness of TranspositionTable: every field written by an operation is
        definitely re-written by clear() (with the value a fresh table has) or by a named
        per-search initialiser whose must-call chain is checked
 .3 K16 the evaluation caches, which Clear Hash deliberately keeps, are pure functions of their keys
 .2 K2/K13 the Clear-Hash listener resets everything else: tt.clear(), ht.init(),
        setClearHistory(); History::init and KillerTable::clear cover every cell and member;
        iterativeDeepening clears the killers before searching; the helper path honours
        clearHistory
"""
import re

from ..core import cname, ap, walk, show, strip_not, eff_cond
from ..effects import Effects, event_writes
from ..flow import Flow
from .. import rules as R
from . import common

EXPLANATION = (
    'Reset/frame completeness decided on the source: (1) for TranspositionTable the set of fields any operation (every '
    'non-constructor method except the reset functions) may write is contained in the set clear() must-write on every path, or '
    'is a per-search initialiser with a checked must-call chain (contemptHash <- startThread -> Search::setWhiteContempt -> '
    'TranspositionTable::setWhiteContempt), and the constants clear() writes equal those of a freshly constructed table; the slot '
    'array is zeroed on every path of clear(); (2) the Clear Hash listener must-calls TranspositionTable::clear, History::init and '
    'EngineMainThread::setClearHistory; History::init and KillerTable::clear write every member of every cell (loop bounds equal '
    'the array extents by constant evaluation); Search::iterativeDeepening must-calls KillerTable::clear before the first search '
    'call; WorkerThread::CommHandler::initSearch clears killers and honours clearHistory; doSearch hands the flag on and resets it.'
    ' The forward of the contempt to the table in Search::setWhiteContempt may depend on the thread number only.'
    ' Added later; (4) clear() zeroes exactly the slots [0, tableSize): clear() itself - branch, chunk loop, worker closure, memset arguments - is interpreted for every table size the Hash option can produce (1..1024 MB quick, ..4096 MB thorough, and the halved fall-back sizes).'
    ' Added later; History::init zeroes unconditionally. (5) the queue of option changes waiting for an idle engine keeps the latest value per option (overwriting store of the value parameter under the name parameter; no emplace / insert on the queue). (6) = C07.7 the material-class flags cached in the material hash are computed from the material alone.')
UNDECIDED = ('equality of node counts as such; influence of state outside these classes (static-storage writers reachable from '
             'the search are listed under coverage.static_storage_writers for review, not judged); hash-key collisions in the '
             'evaluation cache.')
ASSUMPTIONS = ['a field whose only accesses are its own increments (pure statistics counter) is not behaviour-relevant',
               'TTStorage::idx0 is dead while tbGen is null (read only through TBGenerator methods)']

TT = 'TranspositionTable'
RESETTERS = {TT + '::clear', TT + '::reSize', TT + '::TranspositionTable', TT + '::~TranspositionTable'}
CONFIG_FIELDS = {'table': 'pointer into tableP, written only by reSize',
                 'tableP': 'allocation, written only by reSize',
                 'tableSize': 'configured size, written only by reSize'}
# field -> (reason, per-search initialiser chain to check)
PER_SEARCH = {
    'contemptHash': 're-established before every search: EngineControl::startThread must-calls Search::setWhiteContempt, '
                    'which calls TranspositionTable::setWhiteContempt for thread 0, which writes it on every path',
    'ttStorage': 'TTStorage::idx0 is only read through TBGenerator methods; dead while tbGen is null, and clear() resets tbGen',
}


def run(fb, rep, tier):
    c1_tt(fb, rep)
    c2_rest(fb, rep)
    # .3 state that survives Clear Hash by design (the evaluation caches owned by EngineControl) must be a pure
    # function of its key, otherwise what earlier searches cached changes later results (shared with C07.3)
    from . import C07
    C07.c3_cache(fb, rep, clause='C14.3')
    c4_clear_covers_table(fb, rep, tier)
    c5_option_queue_last_wins(fb, rep)
    # .6 the material-class flags cached in the material hash (which Clear Hash keeps, being a pure function of its key) are
    # computed from the material alone (shared with C07.7)
    C07.c7_classification_is_material(fb, rep, 'C14.6')
    surv = fb.find1('EngineControl::EngineControl')
    if surv is not None:
        lam_clears = set()
        for b, i, e in surv.events():
            pass


def c1_tt(fb, rep):
    clause = 'C14.1'
    rec = rep.need(clause, fb.record(TT), 'record TranspositionTable')
    clear = rep.need(clause, fb.find1(TT + '::clear'), 'TranspositionTable::clear')
    if not rec or not clear:
        return
    eff = Effects(fb, TT)
    fields = [f['n'] for f in rec['fields'] if not f.get('const') and not f.get('reference')]
    ops = [m for m in eff.methods.values() if m.sname not in RESETTERS and not m.d.get('const')]
    written_by = {}
    for m in ops:
        if m.sname == TT + '::setUsedSize':
            pass
        for f in eff.may_write(m):
            written_by.setdefault(f, set()).add(m.sname)
    rep.floor(clause, 'fields of TranspositionTable written by operations', len(written_by), 5)
    fresh = {}
    for f in rec['fields']:
        if isinstance(f.get('init'), dict) and 'cv' in f['init']:
            fresh[f['n']] = {f['init']['cv']}
    rs = fb.find1(TT + '::reSize')
    for fld in sorted(written_by):
        if fld == 'table[]':
            rep.ob(clause, 'K13 reset completeness', 'slot contents (written by %s) are zeroed by clear()' %
                   ', '.join(sorted(w.split('::')[-1] for w in written_by[fld])), True, clear.where,
                   'decided by the zeroing obligations below', clear.sname)
            continue
        if fld not in fields:
            continue
        who = sorted(written_by[fld])
        inst = 'field %s (written by %s)' % (fld, ', '.join(w.split('::')[-1] for w in who))
        if fld in CONFIG_FIELDS:
            only = set(who) <= RESETTERS
            rep.ob(clause, 'K13 reset completeness', inst + ' is a configuration field', only, clear.where,
                   '' if only else 'a configuration field is written by an operation', clear.sname)
            continue
        if fld in PER_SEARCH:
            rep.ob(clause, 'K13 reset completeness', inst + ' has a per-search initialiser', True, clear.where, PER_SEARCH[fld], clear.sname)
            continue
        relevant = eff.reads_outside_own_update(fld)
        if not relevant:
            rep.ob(clause, 'K13 reset completeness', inst + ' is a pure counter (never read)', True, clear.where, '', clear.sname)
            continue
        ok = eff.must_write(clear, fld)
        rep.ob(clause, 'K13 reset completeness', inst + ' is re-written by clear() on every path', ok, clear.where,
               '' if ok else 'TranspositionTable::clear() does not (always) reset %s, which %s modif%s; Clear Hash then differs from a fresh table'
               % (fld, ', '.join(who), 'ies' if len(who) == 1 else 'y'), clear.sname)
        # value agreement with a fresh table
        cw = eff.const_written(clear, fld)
        fv = set(fresh.get(fld, set()))
        if rs is not None:
            fv |= {v for v in eff.const_written(rs, fld) if v is not None}
        if cw and None not in cw and fv:
            same = cw <= fv
            rep.ob(clause, 'K13 reset value', 'clear() writes %s the value a fresh table has' % fld, same, clear.where,
                   'clear writes %s, fresh value(s) %s' % (sorted(cw), sorted(fv)), clear.sname)
    # per-search chain for contemptHash
    st = fb.find1('EngineControl::startThread')
    if rep.need(clause, st, 'EngineControl::startThread'):
        R.must_pass_between(rep, st, clause, 'startThread must-calls Search::setWhiteContempt before the hand-over', None,
                            R.is_named_call('EngineMainThread::startSearch'), R.is_named_call('Search::setWhiteContempt'))
    sw = fb.find1('Search::setWhiteContempt')
    if rep.need(clause, sw, 'Search::setWhiteContempt'):
        calls = R.calls_in(sw, 'ClusterTT::setWhiteContempt', TT + '::setWhiteContempt')
        # forwarded unconditionally for the main thread: the only test the call may depend on is the thread number
        from .. import regions as G_
        extra = []
        for b_, i_, e_ in calls:
            for g_, sd_ in G_.guard_trees(sw, set(sw.blocks), b_):
                if not any((ap(n_) or '') == 'this.threadNo' for n_ in walk(g_)):
                    extra.append(('' if sd_ else '!') + show(g_, 120))
        rep.ob(clause, 'K2 must-call', 'Search::setWhiteContempt forwards to the table for thread 0 whatever the previous value was (the table outlives the Search object)',
               bool(calls) and not extra, sw.where, ('the call also depends on: %s' % extra) if extra else '', sw.sname)
    tw = fb.find1(TT + '::setWhiteContempt')
    if rep.need(clause, tw, TT + '::setWhiteContempt'):
        ok = Effects(fb, TT).must_write(tw, 'contemptHash')
        rep.ob(clause, 'K13 reset completeness', 'TranspositionTable::setWhiteContempt writes contemptHash on every path', ok, tw.where, '', tw.sname)
    # premise for ttStorage: only TBGenerator touches it
    users = set()
    for f in fb.funcs.values():
        if not f.has_cfg or not R.in_engine(f):
            continue
        for b, i, e in f.events():
            if e.get('k') == 'call' and cname(e) in ('TTStorage::operator[]', 'TTStorage::store', 'TTStorage::resize'):
                users.add(f.sname.split('<')[0])
    rep.ob(clause, 'K5 who-may-call', 'TTStorage is accessed only from TBGenerator', all(u.startswith('TBGenerator::') for u in users) and bool(users),
           '', 'users: %s' % sorted(users), '')
    # slot contents: every path of clear() zeroes the array
    def zeroes(e):
        if e is None or e.get('k') != 'call':
            return False
        n = cname(e)
        if n in ('memset', 'std::memset'):
            return True
        if n == 'ThreadPool::addTask':
            for a in e.get('args', []):
                for nd in walk(a):
                    if nd.get('k') == 'lambda':
                        lf = fb.funcs.get(nd['f'])
                        if lf is not None and any(ev.get('k') == 'call' and cname(ev) in ('memset', 'std::memset') for _, _, ev in lf.events()):
                            return True
                    if nd.get('k') == 'var':
                        for lam in fb.lambdas_in(clear):
                            if any(ev.get('k') == 'call' and cname(ev) in ('memset', 'std::memset') for _, _, ev in lam.events()):
                                return True
        return False
    def zero_or_wait(e):
        return e is not None and e.get('k') == 'call' and (cname(e) in ('memset', 'std::memset') or cname(e) == 'ThreadPool::getAllResults')
    R.must_pass_between(rep, clear, clause, 'clear(): every path zeroes the slots directly or waits for the zeroing tasks', None, R.at_exit, zero_or_wait)
    tasks = [(b, i, e) for b, i, e in clear.calls('ThreadPool::addTask')]
    for b, i, e in tasks:
        rep.ob(clause, 'K13 reset completeness', 'clear(): every queued pool task zeroes its chunk (memset)', zeroes(e), R.site(clear, e), '', clear.sname)
        # the task is queued on every iteration of the chunk loop: from the loop body entry back to the header
        hdr = None
        for d in clear.dominators().get(b, set()):
            t = clear.blocks[d].get('term')
            if t and t.get('c') == 'ForStmt' and _in_loop(clear, d, b):
                hdr = d
        if hdr is None:
            rep.ob(clause, 'K13 reset completeness', 'clear(): tasks are queued in the chunk loop', False, R.site(clear, e), 'addTask is not inside a loop', clear.sname)
        else:
            body = clear.blocks[hdr]['succ'][0]
            w = clear.path_avoiding((body, -1), lambda ev: False, lambda ev: ev is not None and ev is e) if False else None
            # path from the body entry back to the header avoiding addTask?
            from collections import deque
            seen = {body}
            dq = deque([body])
            skip = False
            while dq:
                x = dq.popleft()
                if any(ev is e for ev in clear.blocks[x]['ev']):
                    continue
                for s2 in clear.blocks[x]['succ']:
                    if s2 == hdr:
                        skip = True
                    elif s2 not in seen and s2 in clear.blocks:
                        seen.add(s2)
                        dq.append(s2)
            rep.ob(clause, 'K13 reset completeness', 'clear(): every iteration of the chunk loop queues a task', not skip, R.site(clear, e), '', clear.sname)
    # chunk loop covers [0, tableSize): i from 0, i < tableSize, step chunkSize, len = min(chunkSize, tableSize - i)
    if tasks:
        lam_ok = False
        for lam in fb.lambdas_in(clear):
            for b2, i2, e2 in lam.events():
                if e2.get('k') == 'decl':
                    for v in e2.get('vars', []):
                        if isinstance(v.get('init'), dict) and v['init'].get('k') == 'call' and cname(v['init']) == 'std::min':
                            lam_ok = True
        rep.ob(clause, 'K13 reset completeness', 'clear(): the last chunk is clipped to the table size (len = min(chunk, size - i))', lam_ok, clear.where, '', clear.sname)
    # nextGeneration callers: only before a search is handed over
    cg, _ = common.graphs(fb)
    R.who_may_call(rep, fb, cg, clause, TT + '::nextGeneration',
                   {'EngineControl::startThread', 'ComputerPlayer::getCommand', 'ComputerPlayer::searchPosition',
                    'ClusterTT::nextGeneration'}, scope=R.in_engine)
    # static storage written after start-up and reachable from the search: listed, not judged
    ssw = []
    for f in fb.funcs.values():
        if not f.has_cfg or not R.in_engine(f):
            continue
        for b, i, e in f.events():
            if e.get('k') == 'acc' and e.get('a') in ('w', 'rw', 'rwu', 'mcall') and isinstance(e.get('e'), dict) and \
                    e['e'].get('k') == 'var' and e['e'].get('vk') in ('global', 'slocal', 'smember'):
                ssw.append('%s in %s' % (e['e'].get('q') or e['e'].get('n'), f.sname))
    rep.extra['static_storage_writers'] = sorted(set(ssw))[:80]


def accumulators_reset(fb, rep, clause):
    # the per-search statistics accumulators of the communicator (nodes / tablebase hits reported by helpers) are part of
    # the node count the next search reports and stops on: every search start resets them, whatever the pool looks like
    si = fb.find1('Communicator::sendInitSearch')
    if rep.need(clause, si, 'Communicator::sendInitSearch'):
        eff_c = Effects(fb, 'Communicator')
        accs = set()
        for f_ in fb.funcs.values():
            if f_.has_cfg and (f_.d.get('cls') or '').endswith('Communicator'):
                for _, _, e_ in f_.events():
                    tgt_ = e_.get('l') if (e_.get('k') == 'asg' and e_.get('op') == '+=') else e_.get('recv') if (e_.get('k') == 'call' and cname(e_).endswith('operator+=')) else None
                    if tgt_ is not None and (ap(tgt_) or '').startswith('this.') and ap(tgt_).count('.') == 1:
                        fld_ = ap(tgt_)[5:]
                        if fb.field('Communicator::' + fld_) is not None:
                            accs.add(fld_)
        rep.floor(clause, 'statistics accumulators of the communicator', len(accs), 2)
        for fld_ in sorted(accs):
            rep.ob(clause, 'K13 reset completeness', 'Communicator::sendInitSearch resets the accumulator %s on every path (also when there are no helper threads)' % fld_,
                   eff_c.must_write(si, fld_), si.where, '', si.sname)
        it_ = fb.find1('Search::iterativeDeepening')
        if it_ is not None:
            R.must_pass_between(rep, it_, clause, 'iterativeDeepening starts every search with sendInitSearch', None,
                                lambda e: e is not None and e.get('k') == 'call' and cname(e) in ('Search::negaScoutRoot', 'Search::negaScout'),
                                R.is_named_call('Communicator::sendInitSearch'))


def c2_rest(fb, rep):
    clause = 'C14.2'
    accumulators_reset(fb, rep, clause)
    ctor = fb.find1('EngineControl::EngineControl')
    if rep.need(clause, ctor, 'EngineControl::EngineControl'):
        lam = None
        for b, i, e in ctor.events():
            if e.get('k') == 'call' and cname(e).endswith('::addListener'):
                onto = e.get('recv')
                if any(n.get('k') == 'var' and (n.get('q') or '').endswith('UciParams::clearHash') for n in walk(onto)):
                    for a in e.get('args', []):
                        for nd in walk(a):
                            if nd.get('k') == 'lambda':
                                lam = fb.funcs.get(nd['f'])
        if rep.need(clause, lam, 'Clear Hash listener lambda in EngineControl::EngineControl'):
            for callee, what in ((TT + '::clear', 'the transposition table'), ('History::init', 'the history table'),
                                 ('EngineMainThread::setClearHistory', 'the clear-history request for helper threads')):
                R.must_pass_between(rep, lam, clause, 'Clear Hash listener resets %s (%s)' % (what, callee), None, R.at_exit,
                                    R.is_named_call(callee))
    # History::init covers every cell and member
    hi = fb.find1('History::init')
    hrec = fb.record('History')
    if rep.need(clause, hi, 'History::init') and rep.need(clause, hrec, 'record History'):
        ent = fb.record('History::HTEntry')
        members = [f['n'] for f in (ent or {}).get('fields', [])]
        rep.floor(clause, 'members of History::HTEntry', len(members), 2)
        written = set()
        conditional = []
        from .. import regions as G_
        for b, i, e in hi.events():
            if e.get('k') == 'asg' and e.get('op') == '=' and isinstance(e.get('l'), dict) and e['l'].get('k') == 'mem' and \
                    isinstance(e.get('r'), dict) and e['r'].get('cv') == 0:
                written.add(e['l'].get('f', '').split('::')[-1])
                # a reset that depends on the old contents is not a reset: the only conditions allowed around the write are the loops' own
                gs = [c for c, side in G_.guard_trees(hi, set(hi.blocks), b)
                      if not any(n.get('k') == 'var' and str(n.get('n', '')).startswith('__') for n in walk(c))]
                loopvars = {v['id'] for _, _, e2 in hi.events() if e2.get('k') == 'decl' for v in e2.get('vars', [])
                            if any(hi.blocks[bb].get('term', {}) and (hi.blocks[bb]['term'].get('c') in ('ForStmt',)) and
                                   any(n.get('k') == 'var' and n.get('id') == v['id'] for n in walk(hi.blocks[bb]['term'].get('cond') or {})) for bb in hi.blocks)}
                extra = [c for c in gs if not any(n.get('k') == 'var' and n.get('id') in loopvars for n in walk(c))]
                if extra:
                    conditional.append((e['l'].get('f', '').split('::')[-1], [show(c, 50) for c in extra]))
        rep.ob(clause, 'K13 reset completeness', 'History::init zeroes the cells unconditionally (whatever they held)', not conditional, hi.where,
               'writes under a condition on the old contents: %s' % conditional, hi.sname)
        rep.ob(clause, 'K13 reset completeness', 'History::init zeroes every member of a cell', set(members) <= written, hi.where,
               'members %s, zeroed %s' % (members, sorted(written)), hi.sname)
        htf = next((f for f in hrec['fields'] if f['n'] == 'ht'), None)
        ext = _extent(htf['ct']) if htf else None
        bound = _loop_bound(hi, None)
        rep.ob(clause, 'K13 reset completeness', 'History::init outer loop bound equals the extent of ht[]', ext is not None and bound == ext,
               hi.where, 'loop bound %s, extent %s' % (bound, ext), hi.sname)
        # inner loop: range-for over AllSquares; AllSquares::end() is 64 == SqTbl extent
        rf = any((blk.get('term') or {}).get('c') == 'CXXForRangeStmt' for blk in hi.blocks.values())
        end = fb.find1('AllSquares::end')
        endv = None
        if end is not None:
            for b, i, e in end.events():
                if e.get('k') == 'ret':
                    for nd in walk(e):
                        if nd.get('k') == 'ctor' and nd.get('args') and isinstance(nd['args'][0], dict) and 'cv' in nd['args'][0]:
                            endv = nd['args'][0]['cv']
        sq = fb.records.get(next((k for k in fb.records if k.startswith('SqTbl<')), ''), {})
        sqext = None
        for f in sq.get('fields', []):
            m = re.search(r'std::array<.*,\s*(\d+)>', f.get('ct', ''))
            if m:
                sqext = int(m.group(1))
        rep.ob(clause, 'K13 reset completeness', 'History::init inner loop ranges over all squares of a SqTbl', rf and endv is not None and endv == sqext,
               hi.where, 'range-for=%s AllSquares::end=%s SqTbl extent=%s' % (rf, endv, sqext), hi.sname)
    # KillerTable::clear
    kc = fb.find1('KillerTable::clear')
    krec = fb.record('KillerTable')
    if rep.need(clause, kc, 'KillerTable::clear') and rep.need(clause, krec, 'record KillerTable'):
        f = next((f for f in krec['fields'] if f['n'] == 'ktList'), None)
        ext = _extent(f['ct']) if f else None
        bound = _loop_bound(kc, None)
        rep.ob(clause, 'K13 reset completeness', 'KillerTable::clear loop bound equals the extent of ktList[]', ext is not None and bound == ext,
               kc.where, 'loop bound %s, extent %s' % (bound, ext), kc.sname)
        assigns = [e for _, _, e in kc.events() if e.get('k') in ('call', 'asg') and
                   any(ap(n) == 'this.ktList[]' for n in walk(e))]
        whole = any((e.get('k') == 'call' and cname(e).endswith('KTEntry::operator=')) or e.get('k') == 'asg' for e in assigns)
        rep.ob(clause, 'K13 reset completeness', 'KillerTable::clear overwrites the whole entry', whole, kc.where, '', kc.sname)
        ke = fb.record('KillerTable::KTEntry')
        kctor = fb.find1('KillerTable::KTEntry::KTEntry')
        if rep.need(clause, ke, 'record KillerTable::KTEntry') and rep.need(clause, kctor, 'KillerTable::KTEntry::KTEntry'):
            inits = {e.get('f', '').split('::')[-1] for _, _, e in kctor.events() if e.get('k') == 'minit' and
                     isinstance(e.get('init'), dict) and e['init'].get('cv') == 0}
            mem = {f['n'] for f in ke['fields']}
            rep.ob(clause, 'K13 reset completeness', 'KTEntry() zero-initialises every member', mem <= inits, kctor.where,
                   'members %s, initialised %s' % (sorted(mem), sorted(inits)), kctor.sname)
    # iterativeDeepening clears the killers before searching
    it = fb.find1('Search::iterativeDeepening')
    if rep.need(clause, it, 'Search::iterativeDeepening'):
        def searches(e):
            return e is not None and e.get('k') == 'call' and cname(e) in ('Search::negaScoutRoot', 'Search::negaScout', 'Search::quiesce')
        R.must_pass_between(rep, it, clause, 'iterativeDeepening: kt.clear() precedes the first search call', None, searches,
                            R.is_named_call('KillerTable::clear'))
        R.must_pass_between(rep, it, clause, 'iterativeDeepening: the history is rescaled before searching', None, searches,
                            R.is_named_call('History::reScale', 'History::init'))
        # the clearHistory flag (the last bool parameter) is forwarded to the helpers
        it_flag = {p_['id'] for p_ in it.d.get('params', []) if (p_.get('t') or '') == 'bool'}
        it_flag = {max(it_flag)} if it_flag else set()
        fw = False
        for b, i, e in it.calls('Communicator::sendInitSearch'):
            if any(n.get('k') == 'var' and n.get('id') in it_flag for a in e.get('args', []) for n in walk(a)):
                fw = True
        rep.ob(clause, 'K2 must-call', 'iterativeDeepening forwards clearHistory to the helper threads', fw, it.where, '', it.sname)
    # helper path
    ins = fb.find1('WorkerThread::CommHandler::initSearch')
    if rep.need(clause, ins, 'WorkerThread::CommHandler::initSearch'):
        ins_flag = {p_['id'] for p_ in ins.d.get('params', []) if (p_.get('t') or '') == 'bool'}

        def tr(e, c, pos):
            kt, ht = c
            if e.get('k') == 'call':
                n = cname(e)
                if n == 'KillerTable::clear':
                    kt = 'done'
                if n == 'History::init':
                    ht = 'init'
                if n == 'History::reScale':
                    ht = 'rescale' if ht != 'init' else ht
            return [(kt, ht)]

        def rf(cond, truth, c):
            kt, ht = c
            e, pol = strip_not(cond)
            t = (truth == pol)
            if isinstance(e, dict) and e.get('k') == 'call' and cname(e).split('::')[-1] == 'operator bool':
                p = ap(e.get('recv'))
                if p and p.endswith('.kt') and not t:
                    kt = 'none'
                if p and p.endswith('.ht') and not t:
                    ht = 'none'
            if isinstance(e, dict) and e.get('k') == 'var' and e.get('id') in ins_flag:
                ht = ht + ('+T' if t else '+F') if ht == 'open' else ht
            return [(kt, ht)]
        fl = Flow(ins, tr, rf).run({('open', 'open')})
        kts = {c[0] for c in fl.at_exit}
        hts = {c[1] for c in fl.at_exit}
        rep.ob(clause, 'K2 must-call', 'helper initSearch clears the killer table whenever it exists', kts <= {'done', 'none'} and bool(kts),
               ins.where, 'killer states at exit: %s' % sorted(kts), ins.sname)
        okh = hts <= {'init', 'rescale', 'none'} and 'init' in hts
        rep.ob(clause, 'K2 must-call', 'helper initSearch re-initialises the history when clearHistory is set', okh, ins.where,
               'history states at exit: %s' % sorted(hts), ins.sname)
        # init must be chosen exactly under clearHistory
        for b, i, e in ins.calls('History::init'):
            doms = ins.dominators().get(b, set())
            guarded = False
            for d in doms:
                t = ins.blocks[d].get('term')
                c = eff_cond(t) if t else None
                ce, pol = strip_not(c) if c is not None else (None, True)
                if isinstance(ce, dict) and ce.get('k') == 'var' and ce.get('id') in ins_flag and pol:
                    ts_ = ins.blocks[d]['succ'][0]
                    guarded = guarded or ts_ == b or ts_ in doms
            rep.ob(clause, 'K4 guard', 'helper initSearch: History::init under clearHistory', guarded, R.site(ins, e), '', ins.sname)
        for b, i, e in ins.calls('History::reScale'):
            doms = ins.dominators().get(b, set())
            guarded = False
            for d in doms:
                t = ins.blocks[d].get('term')
                c = eff_cond(t) if t else None
                ce, pol = strip_not(c) if c is not None else (None, True)
                if isinstance(ce, dict) and ce.get('k') == 'var' and ce.get('id') in ins_flag:
                    fs_ = ins.blocks[d]['succ'][1] if pol else ins.blocks[d]['succ'][0]
                    guarded = guarded or fs_ == b or fs_ in doms
            rep.ob(clause, 'K4 guard', 'helper initSearch: History::reScale only when clearHistory is not set', guarded, R.site(ins, e), '', ins.sname)
    # EngineMainThread::doSearch hands the flag on and resets it
    ds = fb.find1('EngineMainThread::doSearch')
    if rep.need(clause, ds, 'EngineMainThread::doSearch'):
        passes = False
        for b, i, e in ds.calls('Search::iterativeDeepening'):
            args = e.get('args', [])
            if args and ap(args[-1]) == 'this.clearHistory':
                passes = True
        rep.ob(clause, 'K2 must-call', 'doSearch passes clearHistory to iterativeDeepening', passes, ds.where, '', ds.sname)
        def reset(e):
            return e is not None and e.get('k') == 'asg' and ap(e.get('l')) == 'this.clearHistory' and isinstance(e.get('r'), dict) and e['r'].get('cv') == 0
        for b, i, e in ds.calls('Search::iterativeDeepening'):
            R.must_pass_between(rep, ds, clause, 'doSearch resets clearHistory after the search', (b, i), R.at_exit, reset)
    sc = fb.find1('EngineMainThread::setClearHistory')
    if rep.need(clause, sc, 'EngineMainThread::setClearHistory'):
        def sets(e):
            return e is not None and e.get('k') == 'asg' and ap(e.get('l')) == 'this.clearHistory' and isinstance(e.get('r'), dict) and e['r'].get('cv') == 1
        R.must_pass_between(rep, sc, clause, 'setClearHistory sets the flag', None, R.at_exit, sets)


def _in_loop(f, hdr, b):
    # b reaches hdr again
    seen = set()
    st = [b]
    while st:
        x = st.pop()
        for s2 in f.blocks[x]['succ']:
            if s2 == hdr:
                return True
            if s2 not in seen and s2 in f.blocks:
                seen.add(s2)
                st.append(s2)
    return False


def _extent(ct):
    m = re.search(r'\[(\d+)\]', ct or '')
    return int(m.group(1)) if m else None


def _loop_bound(func, var):
    """Constant N of the outermost `for (v = 0; v < N; v++)` loop in func (first match; var None = any counter)."""
    for bid in sorted(func.blocks, reverse=True):
        blk = func.blocks[bid]
        t = blk.get('term')
        if not t or t.get('c') != 'ForStmt':
            continue
        c = t.get('cond')
        if isinstance(c, dict) and c.get('k') == 'bin' and c.get('op') == '<':
            l = c.get('l')
            l = l.get('e') if isinstance(l, dict) and l.get('k') == 'cast' else l
            if isinstance(l, dict) and l.get('k') == 'var' and (var is None or l.get('n') == var):
                r = c.get('r')
                if isinstance(r, dict) and 'cv' in r:
                    return r['cv']
    return None


# ----------------------------------------------------------------------------- .4

def c4_clear_covers_table(fb, rep, tier):
    """K12 coverage by finite evaluation: TranspositionTable::clear() zeroes the slots in pieces (four worker chunks
    for large tables).  The body of clear() - its branch, its chunk loop, the closure each worker runs and the
    arguments of memset - is interpreted for every table size the Hash option can produce (MB x 2^20 / slot size, and
    the halved sizes setupTT falls back to when allocation fails); the zeroed intervals must tile [0, tableSize)
    exactly: nothing left uncleared (a stale entry survives Clear Hash), nothing outside the table."""
    from ..peval import Evaluator, Unknown, Closure
    clause = 'C14.4'
    TT = 'TranspositionTable'
    f = fb.find1(TT + '::clear')
    if rep.need(clause, f, TT + '::clear') is None:
        return
    slot = (fb.record(TT + '::TTEntryStorage') or {}).get('size')
    hp = fb.globals.get('UciParams::hash')
    if rep.need(clause, slot, 'size of TTEntryStorage') is None:
        return
    intervals = []

    def stub_memset(ev, t, env, depth):
        a = t.get('args', [])
        base = a[0]
        idx = None
        for n in walk(base):
            if n.get('k') == 'idx' and ap(n.get('b')) == 'this.table':
                idx = ev.eval(n.get('i'), env, depth)
        if idx is None:
            raise Unknown('memset target is not &table[i]')
        if ev.eval(a[1], env, depth) != 0:
            raise Unknown('memset value is not 0')
        nbytes = ev.eval(a[2], env, depth)
        intervals.append((idx * slot, idx * slot + nbytes))
        return 0

    def stub_add_task(ev, t, env, depth):
        clo = ev.eval(t['args'][0], env, depth)
        if not isinstance(clo, Closure):
            raise Unknown('task is not a closure')
        ev.invoke(clo, [0], depth)
        return 0

    def stub_nop(ev, t, env, depth):
        return 0
    ev = Evaluator(fb, stubs={'memset': stub_memset, 'std::memset': stub_memset, 'ThreadPool::addTask': stub_add_task, 'ThreadPool::getAllResults': stub_nop,
                              TT + '::setUsedSize': stub_nop, 'Numa::bindThread': stub_nop, 'std::unique_ptr::reset': stub_nop})
    max_mb = 4096 if tier == 'thorough' else 1024
    sizes = set()
    for mb in range(1, max_mb + 1):
        n = mb * (1 << 20) // slot
        sizes.add(n)
        if mb % 7 == 0 or mb < 64:
            for j in range(1, 5):
                sizes.add(max(4, (n >> j) & ~3))
    for k in range(10, 37):
        sizes.add((1 << k) // slot * 1 if (1 << k) >= slot * 4 else 4)
    bad = []
    n_eval = 0
    n_chunked = 0
    try:
        for T in sorted(sizes):
            del intervals[:]
            ev.run(f, {'this.tableSize': T})
            n_eval += 1
            if len(intervals) > 1:
                n_chunked += 1
            iv = sorted(intervals)
            pos_ = 0
            ok = True
            for a, b_ in iv:
                if a != pos_ or b_ < a:
                    ok = False
                    break
                pos_ = b_
            if not ok or pos_ != T * slot:
                if len(bad) < 3:
                    bad.append((T, [(a // slot, b_ // slot) for a, b_ in iv][:5]))
    except Unknown as ex:
        rep.broken(clause, 'clear() is not evaluable for table size %s: %s' % (T, ex))
        return
    rep.floor(clause, 'table sizes for which clear() was evaluated', n_eval, 1000)
    rep.floor(clause, 'of these, sizes cleared in several chunks', n_chunked, 500)
    rep.ob(clause, 'K12 coverage', 'clear() zeroes exactly the slots [0, tableSize) for every table size the Hash option can produce', not bad, f.where,
           '%d sizes evaluated (Hash 1..%d MB and allocation fall-backs), %d of them chunked; first sizes not tiled (entries: intervals): %s' % (n_eval, max_mb, n_chunked, bad), f.sname)


# ----------------------------------------------------------------------------- .5

def c5_option_queue_last_wins(fb, rep, clause='C14.5'):
    """K10 the queue of option changes that waits for the engine thread to become idle holds one value per option, and it must
    be the *latest* one: a change followed by its revert while both are still queued (sent during a search, or back to
    back) otherwise leaves the changed value in force, and `Clear Hash` does not reset options.  The queueing function must
    store the value parameter under the name parameter with overwrite semantics (`queue[name] = value`, insert_or_assign);
    map operations that keep an existing element (emplace, insert, try_emplace) are not accepted anywhere on the queue."""
    f = fb.find1('EngineMainThread::setOptionWhenIdle')
    if rep.need(clause, f, 'EngineMainThread::setOptionWhenIdle') is None:
        return
    params = [p_.get('id') for p_ in f.d.get('params', [])]
    if len(params) < 2:
        rep.broken(clause, 'setOptionWhenIdle no longer has (name, value) parameters')
        return
    KEEP_OLD = ('emplace', 'insert', 'try_emplace', 'emplace_hint')
    keep = []
    n_acc = 0
    for g in fb.funcs.values():
        if not g.has_cfg or not R.in_prog(g):
            continue
        for b, i, e in g.events():
            for n in walk(e):
                if isinstance(n, dict) and n.get('k') == 'call' and n.get('recv') is not None and (ap(n['recv']) or '').endswith('.pendingOptions'):
                    n_acc += 1
                    if cname(n).split('::')[-1] in KEEP_OLD:
                        keep.append((g, e))
    rep.floor(clause, 'member calls on the pending-option queue', n_acc, 1)
    rep.ob(clause, 'K10 queue semantics', 'no operation on the pending-option queue keeps an older value for the same option (emplace / insert / try_emplace)', not keep,
           R.site(keep[0][0], keep[0][1]) if keep else f.where, '' if not keep else '%s in %s' % (show(keep[0][1], 80), keep[0][0].sname), f.sname)

    def is_param(t, pid):
        t = _s(t)
        while isinstance(t, dict) and t.get('k') == 'ctor' and len(t.get('args', [])) == 1:
            t = _s(t['args'][0])
        return isinstance(t, dict) and t.get('k') == 'var' and t.get('id') == pid

    def _s(t):
        while isinstance(t, dict) and t.get('k') in ('cast', 'paren'):
            t = t.get('e')
        return t
    stores = []
    for b, i, e in f.events():
        tgt = val = None
        if e.get('k') == 'asg' and e.get('op') == '=':
            tgt, val = e.get('l'), e.get('r')
        elif e.get('k') == 'call' and e.get('op') == '=' and e.get('args'):
            tgt, val = e.get('recv'), e['args'][0]
        elif e.get('k') == 'call' and cname(e).split('::')[-1] == 'insert_or_assign' and (ap(e.get('recv')) or '').endswith('.pendingOptions') and len(e.get('args', [])) == 2:
            if is_param(e['args'][0], params[0]) and is_param(e['args'][1], params[1]):
                stores.append(e)
            continue
        t = _s(tgt)
        if isinstance(t, dict) and t.get('k') == 'call' and t.get('op') == '[]' and (ap(t.get('recv')) or '').endswith('.pendingOptions') and t.get('args') and \
                is_param(t['args'][0], params[0]) and is_param(val, params[1]):
            stores.append(e)
    rep.ob(clause, 'K10 queue semantics', 'setOptionWhenIdle stores its value parameter under its name parameter, replacing an older queued value', len(stores) >= 1,
           R.site(f, stores[0]) if stores else f.where, '%d overwriting store(s)' % len(stores), f.sname)
