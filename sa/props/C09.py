"""C09 - multi-threaded operation is free of data races.  Decides the mechanically checkable
discipline of every field of the shared classes, via one frozen table field -> discipline
(DESIGN Appendix A):
 .1 K6  mutex discipline  (every access outside ctor/dtor holds the mutex)
 .2 K7  atomic types      (record field types)
 .3 K8  thread-role confinement (functions touching the field are reachable only from the
        owning role in the role-specific call graph)
 .4 K2  hand-over / publication points the confinement argument relies on
 .5 K5  static storage written after start-up: the set of such variables is frozen
"""
from ..core import cname, ap, walk, show, strip_targs
from ..locks import locksets
from .. import rules as R
from .. import regions as G
from . import common

EXPLANATION = (
    'One frozen discipline table for the fields of Notifier, Communicator/ThreadCommunicator, WorkerThread, EngineMainThread, '
    'EngineControl, Search (time-limit block), TranspositionTable, ThreadPool and the book-builder scheduler; each row is checked '
    'mechanically: K6 = every access (outside constructors/destructors) has the named mutex in its must-held lock set; K7 = the '
    'field\'s declared type is std::atomic / RelaxedShared; K8 = every function touching the field is reachable only from the '
    'owning thread role (PROTO = the UCI reader thread, ENGINE = the engine main loop, HELPER = worker threads, POOL = pool workers) '
    'in the role-specific call graph (handler-object sensitive, with checked premises); K2 = the publication / hand-over points that '
    'the confinement rows rely on (start parameters written before `search = true` under the mutex, stop waited for before protocol '
    'state is touched, workers initialised before use, TT geometry changed only before helpers are started, contempt hash written by '
    'thread 0 only); plus a frozen set of static-storage variables written after start-up. Every field of the listed classes must '
    'have a row (new fields fail until classified).'
    ' The options hand-over (waitOptionsSet returning) is decided by the completion-flag typestate: optionsSetFinished is set only under the mutex with the pending queue and every swapped-out batch known empty.'
    ' Added later; (6) unlocked walks of Communicator::children in poll are followed by a lock acquisition; (7) option reads on the go paths follow waitOptionsSet; (8) the start-up seeding of the lazily filled maxSubDTM map covers every pawn split up to colour mirroring, so search threads only look it up. (9) every Notifier::wait outside a re-checking loop waits without a time limit (the hand-over edges the table relies on). (10) ~WorkerThread destroys its sub-workers only after its own thread, which polls their communicators unlocked, has been joined - found and fixed defect D20. (11) a ThreadPool task touches an output stream of the enclosing function only to choose its own log under the single-worker test, or under a mutex. (12) = C10.5 the stop round after every search that ran (the premise of the engine thread\'s confinement rows).')
UNDECIDED = ('absence of races in the C++ memory-model sense for the whole engine (needs dynamic happens-before tracking); rows marked '
             'HB-protocol rely on message-protocol ordering that is listed, not proved; maxSubDTM/maxDTM lazy maps are not judged '
             '(6/7-men tablebase files needed to reach the insertion).')
ASSUMPTIONS = [
    'HB-protocol: helper threads search only between INIT/START_SEARCH and their STOP_ACK; the engine thread changes table geometry and options only outside that window',
    'HB-protocol: the option listeners fired from the EngineControl constructor run before the first search is handed over',
    'std::thread construction/join, std::mutex and std::condition_variable provide the ordering the standard specifies',
    'maxSubDTM / maxDTM (tbprobe.cpp): pre-computed at start-up for <= 5 non-king men (coverage of the seeding loop checked in C09.8; that the recursion of getMaxSubMate reaches every sub-material from the seeds is read, not proved)',
]

# discipline table ----------------------------------------------------------------------------
M = 'mutex'        # K6, value = mutex access path relative to the object
A = 'atomic'       # K7
C = 'confined'     # K8, value = set of roles
X = 'const'        # written only in constructors
P = 'published'    # written before / read after a checked publication point
H = 'hb-protocol'  # listed assumption; syntactic ends checked in .4

TABLE = {
    'Notifier': {
        'mutex': ('sync', None), 'cv': ('sync', None),
        'notified': (M, 'this.mutex'),
    },
    'Communicator': {
        'cmdQueue': (M, 'this.mutex'), 'mutex': ('sync', None),
        'nodesSearched': (A, None), 'tbHits': (A, None),
        'parent': (X, None), 'ctt': (X, None),
        'children': ('mutex-writes', 'this.mutex'),
        'stopAckWaitSelf': (C, {'ENGINE', 'HELPER'}), 'stopAckWaitChildren': (C, {'ENGINE', 'HELPER'}),
        'quitAckWaitChildren': (C, {'ENGINE', 'HELPER'}),
    },
    'ThreadCommunicator': {
        'notifier': (X, 'set in the constructor; setNotifier only on the cluster path before the loop starts'),
        'ttReceiver': (X, None),
    },
    'WorkerThread': {
        'threadNo': (X, None), 'numWorkers': (X, None), 'tt': (X, None),
        'disabled': (C, {'HELPER'}), 'comm': (H, 'created by the worker thread before initialized.notify(); the creator waits for it'),
        'thread': (C, {'PROTO', 'ENGINE', 'HELPER'}), 'threadNotifier': ('sync', None), 'initialized': ('sync', None),
        'children': (C, {'HELPER'}), 'terminate': (A, None),
        'et': (C, {'HELPER'}), 'kt': (C, {'HELPER'}), 'ht': (C, {'HELPER'}), 'logFile': (C, {'HELPER'}),
        'rootNodeIdx': (C, {'HELPER'}), 'pos': (C, {'HELPER'}), 'sti': (C, {'HELPER'}), 'posHashList': (C, {'HELPER'}),
        'posHashListSize': (C, {'HELPER'}), 'whiteContempt': (C, {'HELPER'}), 'jobId': (C, {'HELPER'}),
        'alpha': (C, {'HELPER'}), 'beta': (C, {'HELPER'}), 'depth': (C, {'HELPER'}), 'hasResult': (C, {'HELPER'}),
    },
    'EngineMainThread': {
        'mutex': ('sync', None), 'searchStopped': ('sync', None), 'optionsSet': ('sync', None), 'notifier': ('sync', None),
        'search': (A, None), 'quitFlag': (A, None),
        'pendingOptions': (M, 'this.mutex'), 'optionsSetFinished': (M, 'this.mutex'),
        'engineControl': (P, 'search'), 'sc': (P, 'search'), 'pos': (P, 'search'), 'moves': (P, 'search'), 'ownBook': (P, 'search'),
        'analyseMode': (P, 'search'), 'maxDepth': (P, 'search'), 'maxNodes': (P, 'search'), 'maxPV': (P, 'search'),
        'minProbeDepth': (P, 'search'), 'ponder': (P, 'search'), 'infinite': (P, 'search'),
        'children': (C, {'PROTO'}), 'clearHistory': (C, {'ENGINE'}),
        'tt': ('own-discipline', 'TranspositionTable: slots atomic (C08), geometry written only while no helper searches (C09.4)'),
        'comm': (X, 'moved only on the cluster path'),
    },
    'EngineControl': {
        'ponder': (A, None), 'infinite': (A, None),
        'os': (X, None), 'engineThread': (X, None), 'listener': (X, None),
        'sc': (C, {'PROTO'}), 'pos': (C, {'PROTO'}), 'posHashList': (C, {'PROTO'}), 'posHashListSize': (C, {'PROTO'}),
        'onePossibleMove': (C, {'PROTO'}), 'minTimeLimit': (C, {'PROTO'}), 'maxTimeLimit': (C, {'PROTO'}),
        'earlyStopPercentage': (C, {'PROTO'}), 'maxDepth': (C, {'PROTO'}), 'maxNodes': (C, {'PROTO'}), 'searchMoves': (C, {'PROTO'}),
        'randomSeed': (C, {'PROTO'}), 'treeLog': (C, {'PROTO'}),
        'ht': ('bound-only', {'PROTO'}), 'kt': ('bound-only', {'PROTO'}), 'et': ('bound-only', {'PROTO'}),
        'opponentBasedContempt': (H, 'written by the option listener (engine idle), read in startThread after stopThread()/waitOptionsSet()'),
        'hashParListenerId': (C, {'PROTO'}), 'clearHashParListenerId': (C, {'PROTO'}), 'opponentParListenerId': (C, {'PROTO'}),
        'contemptFileParListenerId': (C, {'PROTO'}),
    },
    'ThreadPool': {
        'mutex': ('sync', None), 'taskCv': ('sync', None), 'completeCv': ('sync', None),
        'nActive': (M, 'this.mutex'), 'stopped': (M, 'this.mutex'), 'tasks': (M, 'this.mutex'), 'results': (M, 'this.mutex'),
        'exceptions': (M, 'this.mutex'),
        'threads': (C, {'OWNER'}),
    },
}
SEARCH_SHARED = {'minTimeMillis': A, 'maxTimeMillis': A, 'earlyStopPercentage': A}
TT_ATOMIC = {'TranspositionTable::TTEntryStorage::key', 'TranspositionTable::TTEntryStorage::data'}
ATOMIC_PREFIXES = ('std::atomic<', 'RelaxedShared<')

# static storage written after start-up (one reason per line); anything else fails C09.5
KNOWN_STATICS = {
    'TranspositionTable::updateTB::<static S64>': 'ENGINE only (updateTB is called by thread 0 before helpers start)',
    'Book::numBookMoves': 'ENGINE only (book probe in doSearch)', 'Book::bookMap': 'ENGINE only', 'Book::rndGen': 'ENGINE only',
    'maxSubDTM': 'filled at start-up (C09.8); later calls only look up (see assumptions)', 'maxDTM': 'suppressed with reason (see assumptions)',
    'maxDTZ': 'initialisation path only (TBProbe::initialize, engine idle)',
    'TBProbe::initialize::<static bool>': 'option listener, engine idle', 'TBProbe::gtbInitialize::<static bool>': 'option listener, engine idle',
    'TBProbeData::maxPieces': 'option listener, engine idle', 'currentGtbCacheMB': 'option listener, engine idle',
    'currentGtbPath': 'option listener, engine idle', 'currentGtbWdlFraction': 'option listener, engine idle',
    'currentRtbPath': 'option listener, engine idle', 'gtbMaxPieces': 'option listener, engine idle',
    'Syzygy::TBLargest': 'option listener, engine idle', 'TBnum_pawn': 'option listener, engine idle', 'TBnum_piece': 'option listener, engine idle',
    'initialized': 'Syzygy::init, option listener, engine idle', 'num_paths': 'Syzygy::init', 'path_string': 'Syzygy::init', 'paths': 'Syzygy::init',
    'TB_mutex': 'the mutex itself', 'std::cout': 'iostream object (internally synchronised per operation)', 'std::cerr': 'iostream object',
    'ComputerPlayer::engineName': 'static initialisation / Parameters construction (before threads exist)',
}


# writer functions exempt from the static-storage rule (named symbol + reason)
WRITER_EXEMPT = {
    'Parameters::Parameters': 'construction of the Parameters singleton (function-local static: initialised once, thread-safe, before any option is read); registers the Param<> tuning objects',
}


def roles(fb):
    cg_e, cg_h = common.graphs(fb)
    main = fb.find1('UCIProtocol::main')
    eng = fb.find1('EngineMainThread::mainLoop')
    wt = fb.find1('WorkerThread::WorkerThread')
    if not (main and eng and wt):
        return None
    proto = [l.key for l in fb.lambdas_in(main)]
    hel = [l.key for l in fb.lambdas_in(wt)]
    pool = [l.key for f in fb.find('ThreadPool::ThreadPool') for l in fb.lambdas_in(f)]
    tasks = [t for ts in cg_e.pool_tasks.values() for t in ts]
    # in-process helpers never receive SET_PARAM (premise checked in C09.4: toAll stays false and
    # clusterChildNo() == -1), so the helper role does not continue through the setParam handler
    no_setparam = [f.key for f in fb.find('WorkerThread::CommHandler::setParam')]
    return {
        'PROTO': cg_e.reachable(proto), 'ENGINE': cg_e.reachable([eng.key]), 'HELPER': cg_h.reachable(hel, stop=no_setparam),
        'POOL': cg_e.reachable(pool + tasks),
    }, {'PROTO': proto, 'ENGINE': [eng.key], 'HELPER': hel, 'POOL': pool + tasks}


def accessors(fb, qfield):
    """[(func, block, idx, event, kind)] for every access of a field (acc events)."""
    out = []
    for f in fb.funcs.values():
        if not f.has_cfg or not R.in_prog(f):
            continue
        for b, i, e in f.events():
            if e.get('k') == 'acc' and isinstance(e.get('e'), dict) and e['e'].get('k') == 'mem' and strip_targs(e['e'].get('f', '')) == qfield:
                out.append((f, b, i, e, e.get('a')))
            elif e.get('k') == 'minit' and strip_targs(e.get('f', '')) == qfield:
                out.append((f, b, i, e, 'init'))
    return out


def is_cdtor_of(f, cls):
    return strip_targs(f.d.get('cls') or '') == cls and (f.d.get('ctor') or f.d.get('dtor'))


def run(fb, rep, tier):
    common.check_premises(fb, rep, 'C09.0')
    rr = roles(fb)
    if rr is None:
        rep.broken('C09.3', 'thread entry points not found')
        return
    reach, roots = rr
    # the options hand-over (waitOptionsSet returning orders the engine thread's option processing before the
    # protocol thread's next search set-up): decided by the completion-flag typestate shared with C10.7
    from . import C10
    C10.completion_flag(fb, rep, 'C09.4')
    c5_children_walk(fb, rep)
    c8_lazy_map_seeded(fb, rep)
    c9_hand_over_waits_are_unbounded(fb, rep)
    c10_worker_teardown_order(fb, rep)
    c11_pool_tasks_log_privately(fb, rep)
    # .12 the confinement rows of the engine thread ("helpers are idle when the protocol thread touches X") rest on the stop
    # round after every search that ran: the loop / handshake obligations of C10.5 are that premise (shared)
    from . import C10 as _C10
    _C10.c5_loops(fb, rep, 'C09.12')
    # .7 option values (plain bool / int members of the parameter objects) are written by the engine thread and read by the
    # protocol thread when it handles `go`: the only happens-before edge is waitOptionsSet() inside stopThread(), which must
    # therefore precede every option-reading call on the go paths (shared with C06.4)
    from . import C06
    C06.c4_options_before_limits(fb, rep, 'C09.7')
    rep.extra['thread_roles'] = {k: {'roots': [fb.kname(x) for x in roots[k]], 'reachable_functions': len(v)} for k, v in reach.items()}
    n_rows = 0
    for cls, rows in sorted(TABLE.items()):
        rec = None
        for name, r in fb.records.items():
            if strip_targs(name) == cls:
                rec = r
                break
        if rep.need('C09.0', rec, 'record ' + cls) is None:
            continue
        fields = [f['n'] for f in rec['fields']]
        for fl in fields:
            if fl not in rows:
                frec0 = next(f for f in rec['fields'] if f['n'] == fl)
                ct0 = (frec0.get('ct') or '').replace('volatile ', '')
                # a field whose type already is its discipline needs no row: atomics, the relaxed-atomic wrapper, the
                # synchronisation objects themselves, and constants
                by_type = ct0.startswith(('std::atomic', 'RelaxedShared', 'std::mutex', 'std::condition_variable', 'const ')) and not ct0.endswith('*')
                rep.ob('C09.0', 'table completeness', '%s::%s has a discipline row (or a type that is its own discipline: atomic / mutex / const)' % (cls, fl), by_type,
                       '%s:%s' % (rec['file'], rec['line']),
                       ('type %s' % ct0) if by_type else 'new shared field without a declared discipline (mutex / atomic / confined / published)', cls)
        for fl, (kind, arg) in sorted(rows.items()):
            if fl not in fields:
                rep.broken('C09.0', 'table row %s::%s names a field that no longer exists' % (cls, fl))
                continue
            n_rows += 1
            frec = next(f for f in rec['fields'] if f['n'] == fl)
            q = cls + '::' + fl
            acc = accessors(fb, q)
            if kind == M or kind == 'mutex-writes':
                c1_mutex(fb, rep, cls, fl, arg, acc, writes_only=(kind == 'mutex-writes'))
            elif kind == A:
                ok = frec['ct'].startswith(ATOMIC_PREFIXES)
                rep.ob('C09.2', 'K7 atomic type', '%s is atomic' % q, ok, '%s:%s' % (rec['file'], frec['ln']), frec['ct'], cls)
            elif kind == C:
                c3_confined(fb, rep, cls, fl, arg, acc, reach)
            elif kind == 'bound-only':
                # PROTO may only take the address / bind a reference, never read or write through it
                bad = [(f, e) for f, b, i, e, a in acc if f.key in reach['PROTO'] and not is_cdtor_of(f, cls) and a not in ('arg', 'mutarg', 'addr', 'ref', 'init', 'cmcall')
                       and f.key not in reach['ENGINE']]
                rep.ob('C09.3', 'K8 thread-role confinement', '%s is only bound (never read/written) by the protocol thread' % q, not bad,
                       R.site(*bad[0]) if bad else '', '', cls)
            elif kind == X:
                if frec.get('reference'):
                    rep.ob('C09.3', 'K8 const after construction', '%s is a reference member (bound once)' % q, True, '%s:%s' % (rec['file'], frec['ln']), '', cls)
                    continue
                bad = [(f, e) for f, b, i, e, a in acc if a in ('w', 'rw', 'rwu', 'mutarg', 'addr') and not is_cdtor_of(f, cls)
                       and not (fl == 'notifier' and f.sname.endswith('::setNotifier')) and not (fl == 'comm' and cls == 'EngineMainThread')]
                rep.ob('C09.3', 'K8 const after construction', '%s is written only during construction' % q, not bad,
                       R.site(*bad[0]) if bad else '', '' if not bad else 'written in %s' % bad[0][0].sname, cls)
            elif kind == P:
                pass    # checked in c4
            elif kind in (H, 'sync', 'own-discipline'):
                pass
    rep.floor('C09.0', 'discipline rows', n_rows, 95)
    # Search time-limit block and TT slots
    srec = fb.record('Search')
    if rep.need('C09.2', srec, 'record Search'):
        for fl in sorted(SEARCH_SHARED):
            fr = next((f for f in srec['fields'] if f['n'] == fl), None)
            rep.ob('C09.2', 'K7 atomic type', 'Search::%s (written by the protocol thread during a search) is RelaxedShared/atomic' % fl,
                   bool(fr) and fr['ct'].startswith(ATOMIC_PREFIXES), '%s:%s' % (srec['file'], fr['ln'] if fr else 0), fr['ct'] if fr else 'missing', 'Search')
    rs = next((r for n, r in fb.records.items() if n.startswith('RelaxedShared<')), None)
    if rep.need('C09.2', rs, 'record RelaxedShared<T>'):
        ok = all(f['ct'].startswith('std::atomic<') for f in rs['fields'])
        rep.ob('C09.2', 'K7 atomic type', 'RelaxedShared<T> stores its value in a std::atomic<T>', ok, '%s:%s' % (rs['file'], rs['line']), '', '')
    sto = fb.record('TranspositionTable::TTEntryStorage')
    if rep.need('C09.2', sto, 'record TTEntryStorage'):
        for f in sto['fields']:
            rep.ob('C09.2', 'K7 atomic type', 'transposition-table slot word %s is atomic' % f['n'], f['ct'].startswith('std::atomic<'), '%s:%s' % (sto['file'], f['ln']), f['ct'], '')
    c3_search_timelimit(fb, rep, reach)
    c4_handover(fb, rep, reach)
    c5_statics(fb, rep, reach)
    c6_pool_and_scheduler(fb, rep)


# ----------------------------------------------------------------------------- .1

def c1_mutex(fb, rep, cls, fl, mpath, acc, writes_only=False):
    clause = 'C09.1'
    n = 0
    per_func = {}
    for f, b, i, e, a in acc:
        if is_cdtor_of(f, cls) or a == 'init':
            continue
        if writes_only and a in ('r', 'cmcall', 'arg', 'ref'):
            continue
        n += 1
        held = locksets(f).held(e)
        want = mpath.replace('this.', '')
        ok = any(h.split('.')[-1] == want for h in held)
        per_func.setdefault(f.sname, []).append((ok, e, held, f))
    for name in sorted(per_func):
        lst = per_func[name]
        bad = [x for x in lst if not x[0]]
        rep.ob(clause, 'K6 lock discipline', '%s: every %s of %s::%s holds %s' % (name, 'write' if writes_only else 'access', cls, fl, mpath.replace('this.', '')),
               not bad, R.site(bad[0][3], bad[0][1]) if bad else R.site(lst[0][3], lst[0][1]),
               '' if not bad else '%d of %d accesses without the mutex (held: %s)' % (len(bad), len(lst), sorted(bad[0][2])), name)
    rep.floor(clause, 'accesses of %s::%s' % (cls, fl), n, 1)


# ----------------------------------------------------------------------------- .3

def c3_confined(fb, rep, cls, fl, allowed, acc, reach):
    clause = 'C09.3'
    q = cls + '::' + fl
    if 'OWNER' in allowed:
        return
    funcs = {}
    for f, b, i, e, a in acc:
        if is_cdtor_of(f, cls) or a == 'init':
            continue
        funcs.setdefault(f.key, (f, e))
    bad = []
    for k, (f, e) in sorted(funcs.items()):
        rs = {r for r, s in reach.items() if k in s and r != 'POOL'}
        if not rs <= allowed:
            bad.append((f, e, sorted(rs - allowed)))
    rep.ob(clause, 'K8 thread-role confinement', '%s is touched only by functions of role(s) %s' % (q, '/'.join(sorted(allowed))), not bad,
           R.site(bad[0][0], bad[0][1]) if bad else '', '' if not bad else '%s is also reachable from %s' % (bad[0][0].sname, bad[0][2]), cls)


def c3_search_timelimit(fb, rep, reach):
    """Search::timeLimit is the only Search member the protocol thread calls during a search."""
    clause = 'C09.3'
    cg_e, _ = common.graphs(fb)
    # functions of class Search reachable from PROTO (outside construction in startThread)
    st = fb.find1('EngineControl::startThread')
    proto_during = set()
    for name in ('EngineControl::ponderHit', 'EngineControl::stopThread'):
        f = fb.find1(name)
        if rep.need(clause, f, name) is None:
            continue
        for b, i, e in f.events():
            if e.get('k') == 'call' and cname(e).startswith('Search::'):
                proto_during.add(cname(e))
                if cname(e) == 'Search::timeLimit':
                    # no start time is passed while a search is running (tStart is not shared state)
                    args = e.get('args', [])
                    ok = len(args) < 4 or bool(args[3].get('defarg'))
                    rep.ob(clause, 'K4 guard', '%s: timeLimit() during a search passes no start time (tStart stays thread-private)' % name.split('::')[-1], ok, R.site(f, e), '', f.sname)
    rep.ob(clause, 'K8 thread-role confinement', 'during a search the protocol thread calls only Search::timeLimit', proto_during == {'Search::timeLimit'},
           '', 'Search members called from ponderHit/stopThread: %s' % sorted(proto_during), '')
    tl = fb.find1('Search::timeLimit')
    if rep.need(clause, tl, 'Search::timeLimit'):
        written = set()
        for b, i, e in tl.events():
            for n in ([e.get('l')] if e.get('k') == 'asg' else []) + ([e.get('recv')] if e.get('k') == 'call' and cname(e).endswith('::operator=') else []):
                p = ap(n)
                if p and p.startswith('this.'):
                    written.add(p[5:])
        guarded_tstart = True
        for b, i, e in tl.events():
            if e.get('k') == 'asg' and ap(e.get('l')) == 'this.tStart':
                g = G.guards_of(tl, set(tl.blocks), b)
                guarded_tstart = any('startTime' in x for x in g)
        rep.ob(clause, 'K7 atomic type', 'Search::timeLimit writes only the RelaxedShared limits (and tStart only when a start time is given)',
               written <= set(SEARCH_SHARED) | {'tStart'} and guarded_tstart, tl.where, 'fields written: %s' % sorted(written), tl.sname)


# ----------------------------------------------------------------------------- .4

def c4_handover(fb, rep, reach):
    clause = 'C09.4'
    ss = fb.find1('EngineMainThread::startSearch')
    if rep.need(clause, ss, 'EngineMainThread::startSearch'):
        pub = None
        for b, i, e in ss.events():
            if e.get('k') == 'call' and cname(e).split('::')[-1] in ('operator=', 'store') and ap(e.get('recv')) == 'this.search':
                pub = (b, i, e)
        if rep.need(clause, pub, 'search = true in startSearch'):
            held = locksets(ss).held(pub[2])
            rep.ob(clause, 'K6 lock discipline', 'startSearch publishes `search = true` under the mutex', 'this.mutex' in held, R.site(ss, pub[2]), str(sorted(held)), ss.sname)
            for fl, (kind, arg) in sorted(TABLE['EngineMainThread'].items()):
                if kind != P:
                    continue
                ws = [(b, i, e) for b, i, e in ss.events() if (e.get('k') == 'asg' and ap(e.get('l')) == 'this.' + fl) or
                      (e.get('k') == 'call' and cname(e).endswith('::operator=') and ap(e.get('recv')) == 'this.' + fl)]
                ok = bool(ws) and all(ss.pos_dominates((b, i), (pub[0], pub[1])) and 'this.mutex' in locksets(ss).held(e) for b, i, e in ws)
                rep.ob(clause, 'K2 publication', 'startSearch writes %s under the mutex before publishing the search flag' % fl, ok,
                       R.site(ss, ws[0][2]) if ws else ss.where, '', ss.sname)
                # every other accessor is the engine thread (doSearch and its callees) or waitStop after the wait
                for f, b, i, e, a in accessors(fb, 'EngineMainThread::' + fl):
                    if f is ss or is_cdtor_of(f, 'EngineMainThread'):
                        continue
                    if f.sname == 'EngineMainThread::waitStop':
                        # after the while(search) wait
                        wl = [ev for _, _, ev in f.events() if ev.get('k') == 'call' and cname(ev).startswith('std::condition_variable::wait')]
                        def tests_search(x):
                            if x is None or x.get('k') != 'call':
                                return False
                            if cname(x).split('::')[-1] == 'operator bool' and ap(x.get('recv')) == 'this.search':
                                return True
                            # predicate overload: wait(L, [this]{ return !search; })
                            return cname(x).startswith('std::condition_variable::wait') and any('this.search' in R.this_fields_read(l) for a in x.get('args', []) for l in R.lambdas_in_tree(fb, a))
                        okw = bool(wl) and f.path_avoiding((f.entry, -1), lambda x, _e=e: x is _e, tests_search) is None
                        rep.ob(clause, 'K2 publication', 'waitStop touches %s only after it tested the search flag under the mutex' % fl, okw, R.site(f, e), '', f.sname)
                        continue
                    rs = {r for r, s in reach.items() if f.key in s and r != 'POOL'}
                    rep.ob(clause, 'K8 thread-role confinement', '%s reads %s on the engine thread only' % (f.sname, fl), rs <= {'ENGINE'}, R.site(f, e),
                           'roles %s' % sorted(rs), f.sname)
    # PROTO touches search-shared state only after stopThread()
    for name in ('EngineControl::startSearch', 'EngineControl::startPonder'):
        f = fb.find1(name)
        if rep.need(clause, f, name):
            for callee in ('EngineControl::setupPosition', 'EngineControl::computeTimeLimit', 'EngineControl::startThread'):
                R.dominated_by(rep, f, clause, '%s: stopThread() precedes %s' % (name.split('::')[-1], callee.split('::')[-1]),
                               R.is_named_call(callee), R.is_named_call('EngineControl::stopThread'))
    # createWorkers: every new child is waited for
    cw = fb.find1('WorkerThread::createWorkers')
    if rep.need(clause, cw, 'WorkerThread::createWorkers'):
        makes = [(b, i, e) for b, i, e in cw.events() if e.get('k') == 'call' and 'make_shared<WorkerThread' in (e.get('n') or '')]
        # local lists that a range-for with a waitInitialized() body iterates over
        wait_lists = set()
        for b_, i_, e_ in R.calls_in(cw, 'WorkerThread::waitInitialized'):
            h_ = G.loop_header_of(cw, b_)
            if h_ is not None:
                for bb_, blk_ in cw.blocks.items():
                    for ev_ in blk_['ev']:
                        if ev_.get('k') == 'decl':
                            for v_ in ev_.get('vars', []):
                                if v_['n'].startswith('__range') and isinstance(v_.get('init'), dict) and v_['init'].get('k') == 'var':
                                    wait_lists.add(v_['init'].get('id'))
        rep.floor(clause, 'worker creation sites', len(makes), 1)
        for b, i, e in makes:
            def recorded(ev):
                # pushed onto a local list (the one the initialisation wait below iterates over)
                return ev is not None and ev.get('k') == 'call' and cname(ev).split('::')[-1] == 'push_back' and isinstance(ev.get('recv'), dict) and \
                    ev['recv'].get('k') == 'var' and ev['recv'].get('vk') == 'local' and ev['recv'].get('id') in wait_lists
            def next_make(ev, _e=e):
                return ev is None or (ev.get('k') == 'call' and 'make_shared<WorkerThread' in (ev.get('n') or ''))
            w = cw.path_avoiding((b, i), next_make, recorded)
            rep.ob(clause, 'K1 pairing', 'createWorkers records every new child for the initialisation wait', w is None, R.site(cw, e), '', cw.sname)
        waits = R.calls_in(cw, 'WorkerThread::waitInitialized')
        in_range_loop = False
        for b, i, e in waits:
            h = G.loop_header_of(cw, b)
            if h is not None and cw.blocks[h]['term'].get('c') == 'CXXForRangeStmt':
                in_range_loop = True
        rep.ob(clause, 'K2 hand-over', 'createWorkers waits for the initialisation of every recorded child', in_range_loop, cw.where, '', cw.sname)
        w = cw.path_avoiding((cw.entry, -1), R.at_exit, lambda ev: ev is not None and ev.get('k') == 'call' and cname(ev) == 'WorkerThread::waitInitialized')
    ml = fb.find1('WorkerThread::mainLoop')
    if rep.need(clause, ml, 'WorkerThread::mainLoop'):
        def mk(ev):
            return ev is not None and ((ev.get('k') == 'call' and cname(ev).endswith('::operator=') and (ap(ev.get('recv')) or '') == 'this.comm') or
                                       (ev.get('k') == 'call' and cname(ev) == 'ThreadCommunicator::setNotifier'))
        def ini(ev):
            return ev is not None and ev.get('k') == 'call' and cname(ev) == 'Notifier::notify' and (ap(ev.get('recv')) or '').endswith('initialized')
        R.must_pass_between(rep, ml, clause, 'worker: the communicator exists before `initialized` is signalled', None, ini, mk)
    # TT geometry / generation only before the helpers are started
    it = fb.find1('Search::iterativeDeepening')
    if rep.need(clause, it, 'Search::iterativeDeepening'):
        R.must_pass_between(rep, it, clause, 'iterativeDeepening: no helper is initialised before the on-demand table was updated', None,
                            R.is_named_call('Communicator::sendInitSearch'), lambda ev: ev is not None and ev.get('k') == 'call' and
                            (cname(ev).endswith('::updateTB') or cname(ev) == 'TBProbe::tbEnabled'))
        ups = [e for _, _, e in it.events() if e.get('k') == 'call' and cname(e).endswith('::updateTB')]
        for e in ups:
            w = it.path_avoiding((it.entry, -1), lambda x, _e=e: x is _e, R.is_named_call('Communicator::sendInitSearch'))
            # updateTB must not be reachable after sendInitSearch
            after = [(b, i) for b, i, ev in it.events() if ev.get('k') == 'call' and cname(ev) == 'Communicator::sendInitSearch']
            ok = all(it.path_avoiding(p, lambda x, _e=e: x is _e, R.never) is None for p in after)
            rep.ob(clause, 'K2 hand-over', 'iterativeDeepening: updateTB is never reached after the helpers were initialised', ok, R.site(it, e), '', it.sname)
    st = fb.find1('EngineControl::startThread')
    if rep.need(clause, st, 'EngineControl::startThread'):
        after = [(b, i) for b, i, ev in st.events() if ev.get('k') == 'call' and cname(ev) == 'EngineMainThread::startSearch']
        later = any(st.path_avoiding(p, lambda ev: ev is not None and ev.get('k') == 'call' and cname(ev).endswith('::nextGeneration'), R.never) is not None for p in after)
        rep.ob(clause, 'K2 hand-over', 'startThread: nextGeneration() is never reached after the hand-over', not later, st.where, '', st.sname)
    # contempt hash: thread 0 only
    sw = fb.find1('Search::setWhiteContempt')
    if rep.need(clause, sw, 'Search::setWhiteContempt'):
        for b, i, e in sw.events():
            if e.get('k') == 'call' and cname(e).split('::')[-1] == 'setWhiteContempt' and 'TT' in cname(e) or \
                    (e.get('k') == 'call' and cname(e) in ('ClusterTT::setWhiteContempt', 'TranspositionTable::setWhiteContempt')):
                g = G.guards_of(sw, set(sw.blocks), b)
                tno = lambda v: (lambda t: ('v', v) if t.get('k') == 'mem' and ap(t) == 'this.threadNo' else None)
                only0 = G.excluded_under(sw, b, tno(1)) and G.excluded_under(sw, b, tno(7)) and not G.excluded_under(sw, b, tno(0))
                rep.ob(clause, 'K4 guard', 'only thread 0 writes the table\'s contempt hash', only0,
                       R.site(sw, e), 'guards %s' % g, sw.sname)
    wd = fb.find1('WorkerThread::doSearch')
    if rep.need(clause, wd, 'WorkerThread::doSearch'):
        R.must_pass_between(rep, wd, clause, 'helper: setThreadNo() precedes setWhiteContempt()', None, R.is_named_call('Search::setWhiteContempt'),
                            R.is_named_call('Search::setThreadNo'))
        tn = [e for _, _, e in wd.events() if e.get('k') == 'call' and cname(e) == 'Search::setThreadNo']
        ok = bool(tn) and all(ap((e.get('args') or [None])[0]) == 'this.threadNo' for e in tn)
        rep.ob(clause, 'K4 guard', 'helper searches are numbered with the worker\'s own thread number', ok, wd.where, '', wd.sname)
    wc = fb.find1('WorkerThread::createWorkers')
    if wc is not None:
        firsts = {n.get('cv') for f in fb.funcs.values() if f.has_cfg and R.in_engine(f) for _, _, e in f.events()
                  if e.get('k') == 'call' and cname(e) == 'WorkerThread::createWorkers' for n in [(e.get('args') or [{}])[0]] if isinstance(n, dict) and 'cv' in n}
        rep.ob(clause, 'K4 guard', 'worker threads are numbered from 1 (thread 0 is the engine thread)', firsts <= {1} and bool(firsts), wc.where, 'first thread numbers: %s' % sorted(firsts), wc.sname)
    # options are not forwarded to in-process helpers
    calls = [(f, e) for f in fb.funcs.values() if f.has_cfg and R.in_engine(f) for _, _, e in f.events() if e.get('k') == 'call' and cname(e) == 'Communicator::sendSetParam']
    for f, e in calls:
        args = e.get('args', [])
        to_all = len(args) >= 3 and not args[2].get('defarg') and args[2].get('cv') != 0
        rep.ob(clause, 'K4 guard', '%s: SET_PARAM is not forwarded to in-process helpers (toAll stays false)' % f.sname, not to_all, R.site(f, e), '', f.sname)
    cn = fb.find1('ThreadCommunicator::clusterChildNo')
    if rep.need(clause, cn, 'ThreadCommunicator::clusterChildNo'):
        vals = {(e.get('e') or {}).get('cv') for _, _, e in cn.events() if e.get('k') == 'ret'}
        rep.ob(clause, 'K11 constant', 'in-process communicators are never cluster children (clusterChildNo() == -1)', vals == {-1}, cn.where, str(vals), cn.sname)


# ----------------------------------------------------------------------------- .5

def c5_statics(fb, rep, reach):
    clause = 'C09.5'
    seen = {}
    exempt_hits = set()
    search_roles = ('ENGINE', 'HELPER', 'PROTO')
    for fn in fb.funcs.values():
        if not fn.has_cfg or not R.in_prog(fn):
            continue
        rs = {r for r in search_roles if fn.key in reach[r]}
        if not rs:
            continue
        for b, i, e in fn.events():
            if e.get('k') != 'acc' or not isinstance(e.get('e'), dict) or e['e'].get('k') != 'var':
                continue
            v = e['e']
            if v.get('vk') not in ('global', 'slocal', 'smember'):
                continue
            if e.get('a') not in ('w', 'rw', 'rwu', 'mcall', 'mutarg', 'addr'):
                continue
            t = v.get('t') or ''
            if t.startswith('const ') or t.startswith('std::atomic') or t.startswith('std::mutex'):
                continue
            if fn.sname.endswith('staticInitialize') or fn.sname.endswith('::instance'):
                continue
            if fn.sname in WRITER_EXEMPT:
                exempt_hits.add(fn.sname)
                continue
            if e.get('a') == 'mcall':
                rc = fb.records.get(v.get('rc') or '')
                if rc is not None and (rc.get('empty') or not rc.get('fields')):
                    continue        # stateless object (e.g. the dummy search-tree sampler)
            # a function-local static is identified by its function and type (its local name is free to change)
            nm = v.get('q') or ('%s::<static %s>' % (fn.sname, (v.get('t') or '?').replace('std::__cxx11::', 'std::')))
            seen.setdefault(nm, []).append((fn, e, rs))
    for nm in sorted(seen):
        fn, e, rs = seen[nm][0]
        ok = nm in KNOWN_STATICS
        rep.ob(clause, 'K5 static storage', 'static-storage variable %s written after start-up is a known, classified one' % nm, ok, R.site(fn, e),
               KNOWN_STATICS.get(nm, 'new mutable static state reachable from thread role(s) %s (writer %s): classify it (mutex / atomic / single role) or make it thread-local' %
                                 (sorted(set().union(*[x[2] for x in seen[nm]])), fn.sname)), fn.sname)
        if ok and 'ENGINE only' in KNOWN_STATICS[nm]:
            allr = set().union(*[x[2] for x in seen[nm]])
            rep.ob(clause, 'K8 thread-role confinement', '%s is written on the engine thread only' % nm, allr <= {'ENGINE'}, R.site(fn, e), 'roles %s' % sorted(allr), fn.sname)
    rep.floor(clause, 'static-storage variables written after start-up', len(seen), 5)
    sm = fb.records.get('SearchTreeSamplerDummy')
    if sm is not None:
        rep.ob(clause, 'K7 type', 'the search-tree sampler shared by all threads is the stateless dummy', bool(sm.get('empty')) or not sm.get('fields'), '%s:%s' % (sm['file'], sm['line']), '', '')


# ----------------------------------------------------------------------------- pools

def c6_pool_and_scheduler(fb, rep):
    clause = 'C09.1'
    rec = fb.record('BookBuild::SearchScheduler')
    if rec is None:
        return
    shared = [f['n'] for f in rec['fields'] if not f['ct'].startswith(('std::mutex', 'std::condition_variable'))]
    for fl in shared:
        acc = accessors(fb, 'BookBuild::SearchScheduler::' + fl)
        multi = any(True for _ in acc)
        if not multi:
            continue
        fr = next(f for f in rec['fields'] if f['n'] == fl)
        if fl in ('threads',) or fr.get('const'):
            continue
        per = {}
        for f, b, i, e, a in acc:
            if is_cdtor_of(f, 'BookBuild::SearchScheduler') or a == 'init':
                continue
            held = locksets(f).held(e)
            per.setdefault(f.sname, []).append(any(h.endswith('mutex') for h in held))
        for name, oks in sorted(per.items()):
            if name.endswith('::startWorkers') or name.endswith('::addWorker'):
                continue   # set-up before the worker threads exist
            rep.ob(clause, 'K6 lock discipline', '%s: every access of SearchScheduler::%s holds the scheduler mutex' % (name, fl), all(oks), '', '%d accesses' % len(oks), name)


# ----------------------------------------------------------------------------- .5

def c5_children_walk(fb, rep):
    """HB-protocol row of Communicator::children made checkable.  The owning thread walks `children` in poll() without the
    mutex; removeChild() erases under the mutex (C09.1).  A parent destroys a child only after the child's owner delivered
    its acknowledgement, and the owner makes one more pass through poll() that no message orders.  The only edge that
    orders that last walk before the erase is the owner's own unlock at the end of the locked command-drain loop.  So in
    poll() every access to `children` must be followed, on every path to the exit, by an acquisition of the
    communicator's mutex; an unlocked walk after the drain loop races with removeChild / ~Communicator."""
    clause = 'C09.6'
    f = fb.find1('Communicator::poll')
    if rep.need(clause, f, 'Communicator::poll') is None:
        return

    def is_lock(e):
        if e is None or e.get('k') != 'decl':
            return False
        for v in e.get('vars', []):
            t = (v.get('ct') or v.get('t') or '')
            init = v.get('init')
            if t.replace('const ', '').startswith(('std::lock_guard', 'std::unique_lock', 'std::scoped_lock')) and isinstance(init, dict) and init.get('args') and ap(init['args'][0]) == 'this.mutex':
                return True
        return False
    acc = []
    for b, i, e in f.events():
        if any(n.get('k') == 'mem' and ap(n) == 'this.children' for n in walk(e)):
            acc.append((b, i, e))
    rep.floor(clause, 'accesses to children in Communicator::poll', len(acc), 1)
    locks = [1 for _, _, e in f.events() if is_lock(e)]
    rep.floor(clause, 'acquisitions of the communicator mutex in poll', len(locks), 1)
    late = [(b, i, e) for b, i, e in acc if f.path_avoiding((b, i), R.at_exit, is_lock) is not None]
    rep.ob(clause, 'K2 must-pass-through', 'Communicator::poll: every unlocked access to children is followed by an acquisition of the mutex before poll returns', not late,
           R.site(f, late[0][2]) if late else f.where, '%d access(es), %d with a lock-free path to the exit' % (len(acc), len(late)), f.sname)


# ----------------------------------------------------------------------------- .8

def c8_lazy_map_seeded(fb, rep):
    """Premise of the suppressed maxSubDTM row made checkable.  The map is filled lazily by getMaxSubMate() with no lock; the
    only reason search threads never insert is that initWDLBounds() (engine idle) pre-computes it from the all-pawn
    material of nNonKings men, from which every other material is reached by captures and promotions.  The map is keyed
    on min(id, mirror(id)), so the seeds must cover every pawn split {w, N-w} of the N non-king men up to colour mirroring.
    The loop's own init / bound / step and the two count expressions are evaluated; nothing else is assumed."""
    clause = 'C09.8'
    f = fb.find1('TBProbe::initWDLBounds')
    if rep.need(clause, f, 'TBProbe::initWDLBounds') is None:
        return
    decls = {v['id']: v for _, _, e in f.events() if e.get('k') == 'decl' for v in e.get('vars', [])}
    names = {v['id']: v.get('n') for v in decls.values()}

    class Unk(Exception):
        pass

    def strip(t):
        while isinstance(t, dict) and t.get('k') in ('cast', 'paren') and t.get('e') is not None:
            t = t['e']
        return t

    def ev(t, env, depth=0):
        t = strip(t)
        if not isinstance(t, dict) or depth > 8:
            raise Unk(show(t, 60))
        if 'cv' in t:
            return t['cv']
        if t.get('k') == 'var':
            if t.get('id') in env:
                return env[t['id']]
            d = decls.get(t.get('id'))
            if d is not None and d.get('init') is not None:
                return ev(d['init'], env, depth + 1)
            raise Unk(show(t, 60))
        if t.get('k') == 'bin':
            a, b = ev(t['l'], env, depth + 1), ev(t['r'], env, depth + 1)
            op = t.get('op')
            if op in ('/', '%') and b == 0:
                raise Unk('division by zero')
            fn = {'+': lambda: a + b, '-': lambda: a - b, '*': lambda: a * b, '/': lambda: int(a / b), '%': lambda: a - b * int(a / b),
                  '<': lambda: a < b, '<=': lambda: a <= b, '>': lambda: a > b, '>=': lambda: a >= b, '!=': lambda: a != b, '==': lambda: a == b,
                  '&&': lambda: bool(a and b), '||': lambda: bool(a or b), '<<': lambda: a << b, '>>': lambda: a >> b}.get(op)
            if fn is None:
                raise Unk(show(t, 60))
            return fn()
        if t.get('k') == 'un' and t.get('op') in ('-', '!'):
            v = ev(t['e'], env, depth + 1)
            return -v if t['op'] == '-' else (not v)
        raise Unk(show(t, 60))

    hdr = [(bid, blk) for bid, blk in f.blocks.items() if (blk.get('term') or {}).get('c') in ('ForStmt', 'WhileStmt') and bid not in f.dead]
    loops = {h: body for h, body in f.natural_loops().items()} if hasattr(f, 'natural_loops') else {}
    seeds = []      # (loop header, block, index, call event)
    for b, i, e in f.events():
        for n in walk(e):
            if isinstance(n, dict) and n.get('k') == 'call' and cname(n).endswith('::getMaxSubMate') and len(n.get('args', [])) == 2:
                seeds.append((b, i, n))
    if rep.floor(clause, 'seeding calls of getMaxSubMate in initWDLBounds', len({(b, i) for b, i, _ in seeds}), 1) is False or not seeds:
        return
    b0 = seeds[0][0]
    inside = [h for h, _ in hdr if b0 in loops.get(h, ())]
    if len(inside) != 1:
        rep.broken(clause, 'the seeding call is not inside exactly one counted loop (found %d)' % len(inside))
        return
    hb = inside[0]
    cond = f.blocks[hb]['term'].get('cond')
    body = loops[hb]
    # loop variables: the locals stepped inside the loop
    steps = {}
    for b, i, e in f.events():
        if b not in body:
            continue
        if e.get('k') == 'incdec' and isinstance(strip(e.get('e')), dict) and strip(e['e']).get('k') == 'var':
            steps.setdefault(strip(e['e'])['id'], []).append(1 if e.get('op') == '++' else -1)
        elif e.get('k') == 'asg' and isinstance(strip(e.get('l')), dict) and strip(e['l']).get('k') == 'var' and e.get('op') in ('+=', '-='):
            c = strip(e.get('r'))
            steps.setdefault(e['l']['id'], []).append((c.get('cv') if isinstance(c, dict) else None) if e['op'] == '+=' else (-c['cv'] if isinstance(c, dict) and 'cv' in c else None))
        elif e.get('k') == 'asg' and isinstance(strip(e.get('l')), dict) and strip(e['l']).get('k') == 'var' and e['l'].get('id') in decls:
            steps.setdefault(e['l']['id'], []).append(None)
    if len(steps) != 1 or any(len(v) != 1 or v[0] in (None, 0) for v in steps.values()):
        rep.broken(clause, 'the seeding loop does not step exactly one local by a constant: %s' % {names.get(k): v for k, v in steps.items()})
        return
    ivar, (step,) = list(steps.items())[0]
    # element writes pieces[X] = expr inside the loop, keyed by the piece-type constant
    writes = {}
    for b, i, e in f.events():
        if b in body and e.get('k') == 'asg' and e.get('op') == '=':
            l = strip(e.get('l'))
            if isinstance(l, dict) and l.get('k') in ('call', 'idx', 'sub'):
                idx = (l.get('args') or [None, None])[-1] if l.get('k') == 'call' else (l.get('i') or l.get('r'))
                try:
                    writes.setdefault(ev(idx, {}), []).append(e.get('r'))
                except Unk:
                    writes.setdefault(None, []).append(e.get('r'))
    WP, BP = fb.const('Piece::WPAWN'), fb.const('Piece::BPAWN')
    if WP is None or BP is None:
        rep.broken(clause, 'Piece::WPAWN / Piece::BPAWN constants not found')
        return
    if None in writes or set(writes) - {WP, BP} or any(len(v) != 1 for v in writes.values()) or set(writes) != {WP, BP}:
        rep.broken(clause, 'the seeding loop does not write exactly the two pawn counts once each (slots written: %s)' % sorted(writes, key=str))
        return
    d = decls.get(ivar)
    if d is None or d.get('init') is None:
        rep.broken(clause, 'the loop variable has no initialiser')
        return
    where = '%s:%s' % (f.d['file'], f.blocks[hb]['term'].get('ln') or seeds[0][2].get('ln'))
    try:
        x = ev(d['init'], {})
        pairs = []
        for _ in range(64):
            if not ev(cond, {ivar: x}):
                break
            pairs.append((ev(writes[WP][0], {ivar: x}), ev(writes[BP][0], {ivar: x})))
            x += step
        else:
            raise Unk('loop does not terminate within 64 iterations')
    except Unk as u:
        rep.broken(clause, 'seeding loop not evaluable: %s' % u)
        return
    rep.floor(clause, 'seeding iterations evaluated', len(pairs), 1)
    totals = {w + b for w, b in pairs}
    n = max(totals) if totals else 0
    neg = [p_ for p_ in pairs if p_[0] < 0 or p_[1] < 0]
    rep.ob(clause, 'K12 finite evaluation', 'initWDLBounds: every seed is a non-negative pawn split of one non-king count', len(totals) == 1 and not neg, where,
           'splits %s' % pairs, f.sname)
    have = set(pairs) | {(b, w) for w, b in pairs}
    missing = [(w, n - w) for w in range(n + 1) if (w, n - w) not in have]
    rep.ob(clause, 'K12 finite evaluation', 'initWDLBounds: the seeds cover every white/black pawn split of the non-king men up to colour mirroring, so search threads only look the lazy map up',
           not missing, where, 'N=%d, seeded %s%s' % (n, pairs, (', missing ' + str(missing)) if missing else ''), f.sname)
    # the per-position entry point may only fall through to the inserting overload for material the seeds cover:
    # the count it is reached with is bounded by the probe's own piece limit, checked where the probes test TBLargest (C13)
    rep.ob(clause, 'K12 finite evaluation', 'initWDLBounds: the seeded non-king count covers the largest supported tablebase (7 men)', n >= 5, where, 'N=%d' % n, f.sname)


# ----------------------------------------------------------------------------- .9

def c9_hand_over_waits_are_unbounded(fb, rep, clause='C09.9'):
    """K2 hand-over edges.  Several rows of the discipline table are justified by "A waits for B's notification before it
    touches X" (a worker's communicator and child list are built on the worker's own thread; createWorkers() waits for
    `initialized` before the tree is used).  Notifier::wait(timeout) with a finite timeout returns when the time is up,
    notified or not, and reports nothing: outside a loop that re-checks a condition such a wait orders nothing.  So every
    Notifier::wait that is not inside a loop of its function must wait without a time limit (timeout < 0)."""
    n = 0
    for f in sorted(fb.funcs.values(), key=lambda x: x.key):
        if not f.has_cfg or not R.in_prog(f):
            continue
        loops = None
        for b, i, e in f.events():
            if not (e.get('k') == 'call' and cname(e) == 'Notifier::wait'):
                continue
            n += 1
            if loops is None:
                loops = f.natural_loops()
            in_loop = any(b in body for body in loops.values())
            a = e['args'][0] if e.get('args') else None
            a0 = a
            while isinstance(a0, dict) and a0.get('k') in ('cast', 'paren') and 'cv' not in a0:
                a0 = a0.get('e')
            unbounded = a is None or (isinstance(a0, dict) and 'cv' in a0 and a0['cv'] < 0)
            rep.ob(clause, 'K2 hand-over', '%s: a wait for a notification outside a re-checking loop has no time limit' % f.sname, in_loop or unbounded, R.site(f, e),
                   'inside a loop (timed poll)' if in_loop else ('timeout %s' % (show(a, 40) if a is not None else 'default')), f.sname)
    rep.floor(clause, 'Notifier::wait call sites', n, 3)


# ----------------------------------------------------------------------------- .10

def c10_worker_teardown_order(fb, rep, clause='C09.10'):
    """K2 a worker's own thread walks the communicators of its sub-workers in Communicator::poll without a lock (C09.6 orders
    that walk before the *erase* from the list, which takes the mutex - it does not order it before the destruction of the
    child object, whose vptr is rewritten before ~Communicator reaches removeChild).  The only edge that does is the join of
    the worker's thread.  So in ~WorkerThread the sub-workers may be destroyed (children.clear() / resize / assignment) only
    after the decision "join my thread, if I have one" has been passed; members destroyed after the destructor body come
    later anyway."""
    f = fb.find1('WorkerThread::~WorkerThread')
    if rep.need(clause, f, 'WorkerThread::~WorkerThread') is None:
        return
    joins = [(b, i, e) for b, i, e in f.events() if e.get('k') == 'call' and cname(e) == 'std::thread::join']
    rep.floor(clause, 'joins of the worker thread in ~WorkerThread', len(joins), 1)
    if not joins:
        return
    jb = joins[0][0]
    doms = f.dominators()
    # the decision block: the nearest dominator of the join block whose condition reads the thread handle, or the join block itself
    decision = jb
    for d in doms.get(jb, set()):
        c = (f.blocks[d].get('term') or {}).get('cond')
        if d != jb and c is not None and any(isinstance(n, dict) and n.get('k') == 'mem' and ap(n) == 'this.thread' for n in walk(c)) and jb in f.blocks[d]['succ']:
            decision = d
    kills = [(b, i, e) for b, i, e in f.events() if e.get('k') == 'call' and e.get('recv') is not None and ap(e['recv']) == 'this.children' and
             cname(e).split('::')[-1] in ('clear', 'resize', 'erase', 'pop_back', 'operator=', 'swap', 'assign', 'shrink_to_fit')]
    early = []
    for b, i, e in kills:
        after = b != decision and decision in doms.get(b, set()) if decision != jb else (b == jb and i > joins[0][1]) or (b != jb and jb in doms.get(b, set()))
        # the destruction must not be in the decision block itself before the test, nor anywhere the decision does not dominate
        if not after:
            early.append(e)
    rep.ob(clause, 'K2 hand-over', '~WorkerThread destroys its sub-workers only after its own thread has been joined (or found absent)', not early,
           R.site(f, early[0]) if early else f.where, '%d explicit destruction(s) of the sub-workers, %d before the join decision' % (len(kills), len(early)), f.sname)


# ----------------------------------------------------------------------------- .11

def c11_pool_tasks_log_privately(fb, rep, clause='C09.11'):
    """K8 confinement of a shared output stream.  The proof-game filter runs its work items on a ThreadPool; each task writes its
    log into its own string stream and the main thread copies the text to the real log (std::clog, unsynchronised in
    texelutil) when the task has been retired.  The real stream is captured by reference only so that a single-worker run
    can log directly.  Inside a pool task, therefore, an output stream of the enclosing function may appear only in the
    initialiser of the task's own alias, selected under the single-worker test, or while a lock guard is alive (the book
    tools print their result lines under a mutex), or as an argument handed on together with that mutex; every other use
    writes to a shared stream from several threads."""
    n_tasks = 0
    for f in sorted(fb.funcs.values(), key=lambda x: x.key):
        if not f.has_cfg or not R.in_prog(f) or '(lambda' in f.key:
            continue
        lambdas = [l for l in fb.lambdas_in(f) if l.has_cfg]
        if not lambdas:
            continue
        # enclosing function submits lambdas to a ThreadPool
        if not any(e.get('k') == 'call' and 'ThreadPool' in cname(e) and cname(e).split('::')[-1] == 'addTask' for _, _, e in f.events()):
            continue
        outer_streams = {p_['id'] for p_ in f.d.get('params', []) if 'ostream' in (p_.get('t') or '')}
        outer_streams |= {v['id'] for _, _, e in f.events() if e.get('k') == 'decl' for v in e.get('vars', []) if 'ostream' in (v.get('t') or '') and '&' in (v.get('t') or '')}
        if not outer_streams:
            continue
        outer_names = {p_['n'] for p_ in f.d.get('params', []) if 'ostream' in (p_.get('t') or '')}
        outer_names |= {v['n'] for _, _, e in f.events() if e.get('k') == 'decl' for v in e.get('vars', []) if 'ostream' in (v.get('t') or '') and '&' in (v.get('t') or '')}
        for l in lambdas:
            # the captures of this lambda (ids inside a lambda body are its own: match the captured names)
            caps = set()
            for _, _, e in f.events():
                for x in walk(e):
                    if isinstance(x, dict) and x.get('k') == 'lambda' and x.get('f') == l.key:
                        caps |= {c.get('n') for c in x.get('caps', []) if c.get('n')}
            shared = caps & outer_names
            if not shared:
                continue
            n_tasks += 1
            uses, alias_ok, stray = 0, 0, []
            local_decl = {v['id'] for _, _, e in l.events() if e.get('k') == 'decl' for v in e.get('vars', [])}
            outer_streams = {x.get('id') for _, _, e in l.events() for x in walk(e) if isinstance(x, dict) and x.get('k') == 'var' and x.get('n') in shared and
                             'ostream' in (x.get('t') or '') and x.get('id') not in local_decl}
            for b, i, e in l.events():
                hit = [x for x in walk(e) if isinstance(x, dict) and x.get('k') == 'var' and x.get('id') in outer_streams and 'ostream' in (x.get('t') or '')]
                if not hit:
                    continue
                uses += len(hit)
                if e.get('k') == 'decl' and all('ostream' in (v.get('t') or '') and '&' in (v.get('t') or '') for v in e.get('vars', [])):
                    init = e['vars'][0].get('init')
                    c = init
                    while isinstance(c, dict) and c.get('k') in ('cast', 'paren'):
                        c = c.get('e')
                    single = isinstance(c, dict) and c.get('k') == 'cond' and any(isinstance(x, dict) and x.get('k') == 'mem' and (ap(x) or '').endswith('nWorkers') for x in walk(c.get('c')))
                    if single:
                        one = lambda t: ('v', 1) if t.get('k') == 'mem' and (ap(t) or '').endswith('nWorkers') else None
                        many = lambda t: ('v', 4) if t.get('k') == 'mem' and (ap(t) or '').endswith('nWorkers') else None
                        pick_many = c.get('a') if G.tv(c.get('c'), many) else c.get('b')
                        if not any(isinstance(x, dict) and x.get('k') == 'var' and x.get('id') in outer_streams for x in walk(pick_many)) and G.tv(c.get('c'), one) is not None:
                            alias_ok += len(hit)
                            continue
                # ... or under a mutex (a lock guard alive at the statement), or handed on together with the mutex that guards it
                try:
                    held = locksets(l).held(e)
                except Exception:
                    held = set()
                with_mutex = e.get('k') == 'call' and any('mutex' in ((strip_a.get('t') or '') if isinstance(strip_a, dict) else '') for strip_a in e.get('args', []))
                if held or with_mutex:
                    alias_ok += len(hit)
                    continue
                stray.append(e)
            rep.ob(clause, 'K8 thread-role confinement', '%s: a pool task touches a stream of the enclosing function only to choose its own log under the single-worker test, or under a mutex' % f.sname.split('::')[-1],
                   not stray, R.site(l, stray[0]) if stray else l.where, '%d use(s) of an outer stream, %d in the alias choice or under a mutex, %d elsewhere' % (uses, alias_ok, len(stray)), f.sname)
    rep.floor(clause, 'ThreadPool task lambdas with access to an outer stream', n_tasks, 1)
