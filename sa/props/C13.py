"""C13 - tablebase knowledge in the search.  Clauses decided:
 .1 K10/K4 the three distance-to-mate blocks of TBProbe::tbProbe (on-demand, Gaviota-first,
        Gaviota-last) are siblings: an exact mate score is produced only under
        `dtm == 0 || rule50Margin(...) >= 0`, otherwise a draw bound of the right direction;
        rule50Margin measures the true distance (shared with C04.1)
 .2 K2  aggressive probing (minProbeDepth = 1) is enabled only on the updateTB() == true path,
        i.e. only with a complete on-demand table (C12.1)
 .3 K4  the PV extension announces tablebase mates only inside the 50-move limit (same inequality)
"""
from ..core import cname, ap, walk, show, strip_not, eff_cond
from .. import regions as G
from .. import rules as R
from . import C04

EXPLANATION = (
    'Static rules over the resolved program. Decided: (1) in TBProbe::tbProbe every block that obtains a distance-to-mate score '
    '(TranspositionTable::probeDTM and the two gtbProbeDTM blocks) stores an exact score only when the score is 0 or '
    'rule50Margin(score, ply, clock) >= 0, and otherwise stores score 0 with bound T_GE for a won / T_LE for a lost position; the three '
    'blocks are statement-wise identical after renaming; rule50Margin computes (100 - clock) - pliesToMate for every encodable mate '
    '(exhaustive constant evaluation, shared with C04.1), so a mate that cannot be completed before the 50-move limit is never stored '
    'as a mate; the clock passed is the position\'s half-move clock; (2) Search::iterativeDeepening lowers minProbeDepth to 1 only on '
    'the true branch of updateTB(); (3) TBProbe::extendPV extends a PV with tablebase moves only under the same distance inequality.'
    ' (4) the on-demand table is never consulted for positions with castling rights (shared with C12.5); (5) at every exit of every TranspositionTable method the pair (generator, table region) is in the class invariant - no generator installed, or a complete one with its region reserved (shared with C12.1).'
    ' Added later; (6) a freshly generated table is consulted before the clock can abort the search; (7) placement order of the probe index. (8) duplicate filters present in every neighbour-list loop (= C12.7). (9) = C12.9 a probe answers only for positions of the table\'s material class. (10) = C12.11 one position, one table slot. (11) = C12.12 an installed table is consulted whatever the next time budget is.')
UNDECIDED = 'exactness of the reported distances (C12: value-level) and the choice of move among equally good tablebase moves.'
ASSUMPTIONS = ['the generated table is complete when updateTB() returns true (C12.1, C12.2)']


def _strip(t):
    while isinstance(t, dict) and t.get('k') == 'cast':
        t = t.get('e')
    return t


def run(fb, rep, tier):
    c1_dtm_blocks(fb, rep)
    c2_probe_depth(fb, rep)
    c3_extend(fb, rep)
    C04.c1_encoding(fb, rep, 'C13.1')
    from . import C12
    C12.c5_probe_scope(fb, rep, 'C13.4')
    # the exact scores come from the on-demand table: it is only ever observable complete and with its region reserved
    # (shared with C12.1: an installed generator whose bytes ordinary stores may overwrite reports wrong mate distances)
    C12.c1_typestate(fb, rep, 'C13.5')
    c6_table_is_consulted(fb, rep)
    # .7 the probe looks the right entry up: piece placement order of the index (shared with C12.8)
    C12.c8_uncapture_order(fb, rep, 'C13.7')
    # .9 a probe answers only for positions of the table's class: every man was given a slot (shared with C12.9)
    C12.c9_all_men_placed(fb, rep, 'C13.9')
    # .10 one position, one table slot (shared with C12.11)
    C12.c11_canonical_index_compared_after_sorting(fb, rep, 'C13.10')
    # .11 an installed table is consulted whatever the next time budget is (shared with C12.12)
    C12.c12_installed_table_is_used(fb, rep, 'C13.11')
    # .8 the values themselves: duplicate neighbours are counted once (shared with C12.7)
    C12.c7_dedup_filters(fb, rep, 'C13.8')


def c1_dtm_blocks(fb, rep):
    clause = 'C13.1'
    f = fb.find1('TBProbe::tbProbe')
    if f is None:
        fs = [x for x in fb.find('TBProbe::tbProbe') if len(x.d.get('params', [])) >= 9]
        f = fs[0] if fs else None
    if rep.need(clause, f, 'TBProbe::tbProbe') is None:
        return
    probes = [(b, i, e) for b, i, e in f.events() if e.get('k') == 'call' and cname(e) in ('TranspositionTable::probeDTM', 'TBProbe::gtbProbeDTM')]
    rep.floor(clause, 'distance-to-mate probe blocks', len(probes), 3)
    # roles: the probed score = the variable handed to the probes as out-parameter; the ply = the first int parameter;
    # the clock = the local initialised from getHalfMoveClock()
    dtm_ids = {(_strip(e['args'][2]) or {}).get('id') for b, i, e in probes if len(e.get('args', [])) >= 3}
    ply_ids = [p_['id'] for p_ in f.d.get('params', []) if (p_.get('t') or '') == 'int']
    hmc_ids = {v['id'] for _, _, e in f.events() if e.get('k') == 'decl' for v in e.get('vars', []) if any(n.get('k') == 'call' and cname(n) == 'Position::getHalfMoveClock' for n in walk(v.get('init') or {}))}
    exact = [(b, i, e) for b, i, e in f.events() if e.get('k') == 'call' and cname(e) == 'TranspositionTable::TTEntry::setScore' and
             (_strip(e['args'][0]) or {}).get('id') in dtm_ids]
    rep.ob(clause, 'K10 sibling agreement', 'every distance-to-mate probe has exactly one place where its score is stored as exact', len(exact) == len(probes), f.where,
           '%d probes, %d exact stores' % (len(probes), len(exact)), f.sname)
    sigs = []
    for k, (b, i, e) in enumerate(exact):
        gate = None
        gate_blk = None
        # the if statement whose true side is the store block (its terminator carries the whole condition,
        # whichever CFG shape clang chose for the short-circuit operators)
        for d in f.preds.get(b, []):
            tt = f.blocks[d].get('term')
            if tt and tt.get('c') == 'IfStmt' and f.blocks[d]['succ'] and f.blocks[d]['succ'][0] == b:
                gate, gate_blk = tt.get('cond'), d
        ok = gate is not None and _is_gate(gate)
        why = 'gate: %s' % (show(gate, 300) if gate is not None else None)
        if ok:
            for n in walk(gate):
                if n.get('k') == 'call' and cname(n) == 'rule50Margin':
                    args = [(_strip(a) or {}).get('id') for a in n.get('args', [])]
                    if not (len(args) >= 3 and args[0] in dtm_ids and ply_ids and args[1] == ply_ids[0] and args[2] in hmc_ids):
                        ok = False
                        why += '; arguments %s' % [show(_strip(a)) for a in n.get('args', [])]
        rep.ob(clause, 'K4 guard', 'DTM block #%d: the exact mate score is stored only under (score == 0 || rule50Margin(score, ply, clock) >= 0)' % (k + 1), ok, R.site(f, e), why, f.sname)
        # exact store is followed by type EXACT and a successful return
        tys = [show(x['args'][0]) for x in f.blocks[b]['ev'] if x.get('k') == 'call' and cname(x) == 'TranspositionTable::TTEntry::setType']
        rep.ob(clause, 'K10 sibling agreement', 'DTM block #%d: the exact score is typed T_EXACT' % (k + 1), tys in (['TType::T_EXACT'], ['T_EXACT']), R.site(f, e), str(tys), f.sname)
        # false side: draw bound of the right direction
        if gate_blk is not None:
            fb_ = f.blocks[gate_blk]['succ'][1]
            evs = []
            seenb = set()
            q = [fb_]
            while q and len(seenb) < 6:
                x0 = q.pop(0)
                if x0 in seenb:
                    continue
                seenb.add(x0)
                evs += [x for x in f.blocks[x0]['ev'] if x.get('k') == 'call' and cname(x).startswith('TranspositionTable::TTEntry::set')]
                if any(x.get('k') == 'asg' and isinstance(x.get('l'), dict) and x['l'].get('vk') == 'local' and (x['l'].get('t') or '') == 'bool' for x in f.blocks[x0]['ev']):
                    break
                q.extend(f.blocks[x0]['succ'])
            sc = [x for x in evs if cname(x).endswith('setScore')]
            ty = [x for x in evs if cname(x).endswith('setType')]
            okb = len(sc) == 1 and (_strip(sc[0]['args'][0]) or {}).get('cv') == 0 and len(ty) == 1
            if okb:
                t0 = _strip(ty[0]['args'][0])
                c0 = _strip(t0.get('c')) if isinstance(t0, dict) else None
                okb = isinstance(t0, dict) and t0.get('k') == 'cond' and isinstance(c0, dict) and c0.get('k') == 'bin' and c0.get('op') == '>' and \
                    (_strip(c0.get('l')) or {}).get('id') in dtm_ids and (_strip(c0.get('r')) or {}).get('cv') == 0 and \
                    show(_strip(t0.get('a'))).endswith('T_GE') and show(_strip(t0.get('b'))).endswith('T_LE')
            rep.ob(clause, 'K10 sibling agreement', 'DTM block #%d: a mate beyond the limit is stored as score 0 with bound >= for the winner and <= for the loser' % (k + 1), okb,
                   R.site(f, e), '', f.sname)
            from ..core import canonical
            with canonical(f):
                sigs.append(sorted(show(x, 200) for x in evs) + sorted(show(x, 200) for x in f.blocks[b]['ev'] if x.get('k') == 'call' and cname(x).startswith('TranspositionTable::TTEntry::set')))
    same = len(sigs) >= 3 and all(sg == sigs[0] for sg in sigs[1:])
    rep.ob(clause, 'K10 sibling agreement', 'the distance-to-mate blocks of tbProbe store identical records', same, f.where, '' if same else str(sigs), f.sname)
    ok = bool(hmc_ids)
    rep.ob(clause, 'K15 provenance', 'tbProbe measures the 50-move margin with the position\'s half-move clock', ok, f.where, '', f.sname)
    # no write to hmc / dtmScore between the probe and the gate other than the probe itself
    w_hmc = [e for _, _, e in f.events() if e.get('k') == 'asg' and isinstance(e.get('l'), dict) and e['l'].get('id') in hmc_ids]
    rep.ob(clause, 'K15 provenance', 'the clock value is not modified inside tbProbe', not w_hmc, f.where, '', f.sname)


def _is_gate(c):
    c = _strip(c)
    if not (isinstance(c, dict) and c.get('k') == 'bin' and c.get('op') == '||'):
        return False
    l, r = _strip(c.get('l')), _strip(c.get('r'))
    zero = isinstance(l, dict) and l.get('k') == 'bin' and l.get('op') == '==' and show(_strip(l.get('l'))) == 'dtmScore' and (_strip(l.get('r')) or {}).get('cv') == 0
    marg = isinstance(r, dict) and r.get('k') == 'bin' and r.get('op') == '>=' and isinstance(_strip(r.get('l')), dict) and cname(_strip(r['l'])) == 'rule50Margin' and (_strip(r.get('r')) or {}).get('cv') == 0
    return zero and marg


def c2_probe_depth(fb, rep):
    clause = 'C13.2'
    it = fb.find1('Search::iterativeDeepening')
    if rep.need(clause, it, 'Search::iterativeDeepening') is None:
        return
    writes = [(b, i, e) for b, i, e in it.events() if e.get('k') == 'asg' and ap(e.get('l')) == 'this.minProbeDepth']
    rep.floor(clause, 'writes of minProbeDepth in iterativeDeepening', len(writes), 2)
    low = [(b, i, e) for b, i, e in writes if isinstance(e.get('r'), dict) and e['r'].get('cv') == 1]
    rep.floor(clause, 'aggressive-probing assignments', len(low), 1)
    for b, i, e in low:
        g = G.guards_of(it, set(it.blocks), b)
        upd = lambda v: (lambda t: ('v', v) if t.get('k') == 'call' and cname(t).split('::')[-1] == 'updateTB' else None)
        ok = G.excluded_under(it, b, upd(0)) and not G.excluded_under(it, b, upd(1))
        rep.ob(clause, 'K4 guard', 'iterativeDeepening enables aggressive tablebase probing only when updateTB() succeeded', ok, R.site(it, e), 'guards %s' % g, it.sname)
    for b, i, e in writes:
        if (b, i, e) in low:
            continue
        r = show(e.get('r'), 200)
        ok = 'tbEnabled' in r and 'MAX_SEARCH_DEPTH' in r
        rep.ob(clause, 'K4 guard', 'without any tablebase the probe depth is out of reach (MAX_SEARCH_DEPTH)', ok, R.site(it, e), r, it.sname)
    ns = [f for f in fb.find('Search::negaScout') if len(f.blocks) > 50]
    for f in ns:
        probes = [(b, i, e) for b, i, e in f.events() if e.get('k') == 'call' and cname(e) == 'TBProbe::tbProbe']
        for b, i, e in probes:
            g = G.guards_of(f, set(f.blocks), b)
            # the variable compared with minProbeDepth, then: unreachable one below the threshold, reachable at it
            dv = None
            for c_, s_ in G.guard_trees(f, set(f.blocks), b):
                if any(isinstance(n_, dict) and n_.get('k') == 'mem' and ap(n_) == 'this.minProbeDepth' for n_ in walk(c_)):
                    vs = [n_.get('id') for n_ in walk(c_) if isinstance(n_, dict) and n_.get('k') == 'var' and n_.get('vk') in ('param', 'local')]
                    if len(set(vs)) == 1:
                        dv = vs[0]
            lf = lambda d: (lambda t: ('v', 5) if t.get('k') == 'mem' and ap(t) == 'this.minProbeDepth' else (('v', d) if t.get('k') == 'var' and t.get('id') == dv else None))
            ok = dv is not None and G.excluded_under(f, b, lf(4)) and G.excluded_under(f, b, lf(-1)) and not G.excluded_under(f, b, lf(5)) and not G.excluded_under(f, b, lf(9))
            rep.ob(clause, 'K4 guard', '%s probes the tablebases only at depth >= minProbeDepth' % f.name, ok, R.site(f, e), 'guards %s' % g, f.sname)


def c3_extend(fb, rep):
    clause = 'C13.3'
    ex = fb.find1('TBProbe::extendPV')
    if rep.need(clause, ex, 'TBProbe::extendPV') is None:
        return
    conds = {}
    for bid, blk in ex.blocks.items():
        t = blk.get('term')
        if t and t.get('c') == 'IfStmt' and t.get('cond') is not None and blk['succ']:
            tb = blk['succ'][0]
            if any(e.get('k') == 'ret' for e in ex.blocks[tb]['ev']):
                conds[bid] = show(t['cond'], 400).replace('this->', '')
    no_win = [b for b, c in conds.items() if 'dtmProbe' in c and 'isWinScore' in c]
    import re as _re
    too_far = [b for b, c in conds.items() if 'MATE0' in c and _re.search(r'> \(100 - \S*getHalfMoveClock\(\)\)', c)]
    rep.ob(clause, 'K4 guard', 'extendPV returns early when the replayed position is no tablebase win', bool(no_win), ex.where, str(list(conds.values())), ex.sname)
    rep.ob(clause, 'K4 guard', 'extendPV returns early when the mate lies beyond the 50-move limit', bool(too_far), ex.where, str(list(conds.values())), ex.sname)
    pv_ids = {p_['id'] for p_ in ex.d.get('params', []) if 'vector' in (p_.get('t') or '') and 'Move' in (p_.get('t') or '')}
    pushes = [(b, i, e) for b, i, e in ex.events() if e.get('k') == 'call' and cname(e).split('::')[-1] == 'push_back' and isinstance(e.get('recv'), dict) and e['recv'].get('id') in pv_ids]
    rep.floor(clause, 'PV extension sites', len(pushes), 1)
    for b, i, e in pushes:
        ok = bool(no_win) and bool(too_far) and all(d in ex.dominators().get(b, set()) for d in no_win + too_far)
        rep.ob(clause, 'K2 must-precede', 'extendPV extends the PV only after both early-return tests', ok, R.site(ex, e), '', ex.sname)
        g = G.guards_of(ex, set(ex.blocks), b)
        gt = G.guard_trees(ex, set(ex.blocks), b)
        keeps = any(sd and isinstance(_strip(g_), dict) and _strip(g_).get('k') == 'bin' and _strip(g_).get('op') == '==' and
                    all(isinstance(_strip(x_), dict) and _strip(x_).get('k') == 'var' and _strip(x_).get('vk') == 'local' and (_strip(x_).get('t') or '') == 'int' for x_ in (_strip(g_)['l'], _strip(g_)['r']))
                    for g_, sd in gt)
        rep.ob(clause, 'K4 guard', 'extendPV appends only moves that keep the tablebase score (shortest mate)', keeps, R.site(ex, e), 'guards %s' % g, ex.sname)


# ----------------------------------------------------------------------------- .6

def c6_table_is_consulted(fb, rep):
    """K2: building the on-demand table happens inside the search's own time budget (the clock was started before
    updateTB).  When generation takes longer than the soft limit, the very first poll of the clock - made at the first
    node, because the poll counter starts at zero - aborts the search, and the move played is the first of the static
    ordering although exact knowledge has just been built (a won position is thrown away).  So after a successful
    updateTB() the search must be guaranteed a minimum of work before the first poll: the poll counter is re-armed
    (or the search clock re-based) on that path."""
    clause = 'C13.6'
    it = fb.find1('Search::iterativeDeepening')
    ns = [f for f in fb.funcs.values() if f.has_cfg and f.sname == 'Search::negaScout']
    if rep.need(clause, it, 'Search::iterativeDeepening') is None or rep.need(clause, ns, 'Search::negaScout') is None:
        return
    # the poll counter: the field whose `<= 0` test guards the call of shouldStop()
    counters = set()
    for f in ns:
        for b, i, e in f.events():
            if e.get('k') == 'call' and cname(e).split('::')[-1] == 'shouldStop':
                for c, side in G.guard_trees(f, set(f.blocks), b):
                    c = _strip(c)
                    if side and isinstance(c, dict) and c.get('k') == 'bin' and c.get('op') in ('<=', '<') and (ap(_strip(c.get('l'))) or '').startswith('this.'):
                        counters.add(ap(_strip(c['l'])))
    if rep.need(clause, counters, 'the poll counter guarding shouldStop() in negaScout') is None:
        return
    arms = [(bid, blk) for bid, blk in it.blocks.items() if (blk.get('term') or {}).get('c') == 'IfStmt' and
            any(n.get('k') == 'call' and cname(n).split('::')[-1] == 'updateTB' for n in walk(eff_cond(blk['term']) or {}))]
    rep.floor(clause, 'updateTB() tests in iterativeDeepening', len(arms), 1)
    for bid, blk in arms:
        t = blk['succ'][0]
        join = G.ipdom(it, bid)
        region = G.region(it, t, join)
        ok = False
        detail = 'no re-arm of %s and no re-base of the search clock on the success path' % sorted(counters)
        for b in region:
            for e in it.blocks[b]['ev']:
                if e.get('k') == 'asg' and ap(_strip(e.get('l'))) in counters:
                    r = _strip(e.get('r'))
                    if not (isinstance(r, dict) and 'cv' in r and r['cv'] <= 0):
                        ok = True
                        detail = 'poll counter re-armed: ' + show(e, 80)
                if e.get('k') == 'asg' and ap(_strip(e.get('l'))) == 'this.tStart':
                    ok = True
                    detail = 'search clock re-based: ' + show(e, 80)
        rep.ob(clause, 'K2 must-pass-through', 'iterativeDeepening: after a successful on-demand generation the search is guaranteed work before the first clock poll', ok,
               '%s:%s' % (it.file, blk['term'].get('ln')), detail, it.sname)
        # ... and enough of it to read the exact score off the table: the iteration boundary also compares the elapsed time
        # (generation included) with the soft limit, so the soft limit is extended by the generation time (bounded by the
        # hard limit), or the clock is re-based
        ok2 = False
        detail2 = 'the soft limit still counts the generation time: the search stops after the first iteration with an inexact score'
        for b in region:
            for e in it.blocks[b]['ev']:
                tgt = val = None
                if e.get('k') == 'asg':
                    tgt, val = e.get('l'), e.get('r')
                elif e.get('k') == 'call' and e.get('op') == '=' and e.get('args'):
                    tgt, val = e.get('recv'), e['args'][0]
                if tgt is None:
                    continue
                if ap(_strip(tgt)) == 'this.tStart':
                    ok2, detail2 = True, 'search clock re-based'
                if ap(_strip(tgt)) == 'this.minTimeMillis' and any(ap(n) == 'this.tStart' for n in walk(val)) and \
                        any(n.get('k') == 'call' and cname(n) in ('std::min',) or (n.get('k') == 'var' and ap(n) == 'this.maxTimeMillis') or ap(n) == 'this.maxTimeMillis' for n in walk(val)):
                    ok2, detail2 = True, 'soft limit extended by the elapsed generation time, bounded by the hard limit: ' + show(val, 90)
        rep.ob(clause, 'K2 must-pass-through', 'iterativeDeepening: the time spent generating the table does not count against the soft limit of the search that follows', ok2,
               '%s:%s' % (it.file, blk['term'].get('ln')), detail2, it.sname)
