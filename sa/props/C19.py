"""C19 - book-builder graph.  Clauses decided:
 .1 K1  link pairing: every parent->addChild(m, c) is paired with c->addParent(m, parent) (same move,
        swapped receivers) and these are the only writers of the link containers (K5)
 .2 K10 save/load agreement: BookNode::serialize / deSerialize pass the same field list in the same
        order to the shared serialiser; read, write and backup use the same record size
 .3 K10 change detection: every "old value" snapshot in the recompute functions is taken from, and
        compared with, the same field, and every field the function recomputes is snapshotted -
        otherwise a change is not reported and never propagated to the ancestors
 .4 K10 the ordering of the parent-link set compares every identifying field
 .5 K13 dependency completeness of the path-error recompute set: what computePathError reads of the node
        itself / of its parents decides which nodes updateScores must schedule when a recompute call
        reports a change (defect D9 was found by this rule's question and replayed in triage/c19_patherror)
"""
import re

from ..core import cname, ap, walk, show, strip_not, eff_cond
from .. import regions as G
from .. import rules as R

EXPLANATION = (
    'Static rules over the resolved program. Decided: (1) both link sites add the child to the parent and the parent to the child '
    'with the same move in the same straight-line region, and BookNode::addChild / addParent are the only functions that write the '
    'children / parents containers; (2) serialize and deSerialize hand the same field list in the same order to Serializer with the '
    'same buffer size, and readFromFile, writeToFile and writeBackup transfer exactly sizeof(BookSerializeData::data) bytes per node; '
    '(3) in computeNegaMax and computePathError each snapshot `old = field` is compared with that same field in the "changed" result, '
    'and the set of snapshotted fields equals the set of score fields the function writes (a stale snapshot makes updateScores stop '
    'propagating a change towards the root); (4) ParentInfo::operator<, which orders the std::set of parent links, compares every field of both operands; '
    '(5) dependency completeness of the path-error recompute set in updateScores: the fields computePathError reads of the node itself and of its '
    'parents are derived from its body (getters resolved); whenever a recompute call on node X reports a change and writes a field of the first kind, X '
    'itself is scheduled, and for a field of the second kind every child of X is scheduled, on every path on which the change is reported; every '
    'element of the recompute set is handed to the recomputation.'
    ' Added later; (7) the guard of the parent recursion in updateScores holds for (start node, nothing changed). (8) every change of a pending mark is followed by updateScores (directly or through a function that always recomputes) on every path. (9) every write of a node\'s search result (score or best non-book move) is followed by updateScores on every path. (10) every child contributes to the negamax maximum (no iteration of the children loop skips the update). (11) the error of the move into a node negates the child\'s value with negateScore, like the negamax equation.')
UNDECIDED = ('that scores are at the fixed point of the negamax / path-error / expansion-cost equations for every history (value-level '
             'over a DAG); of the upward (negamax / expansion cost) scheduling only the start of the walk (C19.7) is decided, not the updateThis/updateChildren flags.')
ASSUMPTIONS = ['Serializer::serialize / deSerialize are inverse for equal type lists (utility code outside this property)']

NODE = 'BookBuild::BookNode'


def _strip(t):
    while isinstance(t, dict) and t.get('k') == 'cast':
        t = t.get('e')
    return t


def run(fb, rep, tier):
    c1_links(fb, rep)
    c2_serialize(fb, rep)
    c2b_log_replay(fb, rep)
    c3_change_detection(fb, rep)
    c4_set_ordering(fb, rep)
    c5_recompute_dependencies(fb, rep)
    c6_depth_propagation(fb, rep)
    c7_parents_of_start(fb, rep)
    c8_pending_marks(fb, rep)
    c9_search_result_recomputed(fb, rep)
    c10_every_child_counts(fb, rep)
    c11_move_error_uses_negation(fb, rep)


def c4_set_ordering(fb, rep):
    """K10: the parent links of a node live in a std::set ordered by ParentInfo::operator<.  Two elements the
    ordering cannot tell apart are one element to the set, so the ordering must look at every field that makes
    two links different (the move AND the parent node): a transposition in which the same move leads from two
    parents into one node otherwise loses a link and every score that should propagate through it."""
    clause = 'C19.4'
    n = 0
    for f in sorted(fb.funcs.values(), key=lambda x: x.key):
        if not f.has_cfg or not f.sname.startswith('BookBuild::') or not f.sname.endswith('::operator<'):
            continue
        cls = f.sname[:-len('::operator<')]
        rec = fb.record(cls)
        if rec is None:
            continue
        short = cls.split('::')[-1]
        # only orderings that decide membership of an ordered container (a field of type std::set<T> / std::map<T, ..>)
        import re as _re
        used = [(rn, fl['n']) for rn, r in fb.records.items() for fl in r.get('fields', [])
                if _re.search(r'std::(set|multiset|map)<(const )?([\w:]*::)?%s\b' % _re.escape(short), (fl.get('ct') or '') + ' ' + (fl.get('t') or ''))]
        if not used:
            continue
        n += 1
        fields = {fl['n'] for fl in rec['fields']}
        own, other = set(), set()
        pid = f.d['params'][0]['id'] if f.d.get('params') else None
        trees = [e for _, _, e in f.events()] + [blk['term']['cond'] for bid, blk in f.blocks.items() if bid not in f.dead and (blk.get('term') or {}).get('cond') is not None]
        for t in trees:
            for nd in walk(t):
                if nd.get('k') == 'mem' and (nd.get('f') or '').startswith(cls + '::'):
                    fn = nd['f'].split('::')[-1]
                    base = nd.get('b') or {}
                    if base.get('k') == 'this':
                        own.add(fn)
                    elif base.get('k') == 'var' and base.get('id') == pid:
                        other.add(fn)
        rep.ob(clause, 'K10 ordering covers the identity', '%s::operator< compares every field of both operands (elements it cannot tell apart are merged by std::set)' % cls.split('::')[-1],
               fields <= own and fields <= other and bool(fields), f.where, 'fields %s; read of *this %s; read of the other operand %s' % (sorted(fields), sorted(own), sorted(other)), f.sname)
    rep.floor(clause, 'ordering operators of book-builder records', n, 1)


def c1_links(fb, rep):
    clause = 'C19.1'
    sites = []
    for f in fb.funcs.values():
        if f.has_cfg and R.in_prog(f) and f.file.startswith('lib/texelutillib/'):
            for b, i, e in f.events():
                if e.get('k') == 'call' and cname(e) == NODE + '::addChild':
                    sites.append((f, b, i, e))
    rep.floor(clause, 'child-link sites', len(sites), 2)
    for f, b, i, e in sites:
        par = show(e.get('recv'))
        mv = show(_strip(e['args'][0]))
        ch = show(_strip(e['args'][1]))

        def back(ev, _par=par, _mv=mv, _ch=ch):
            if ev is None or ev.get('k') != 'call' or cname(ev) != NODE + '::addParent':
                return False
            r = show(ev.get('recv'))
            return show(_strip(ev['args'][0])) == _mv and _same_obj(r, _ch) and _same_obj(show(_strip(ev['args'][1])), _par)
        w = f.path_avoiding((b, i), R.at_exit, back)
        # and before any other link operation
        w2 = f.path_avoiding((b, i), lambda ev: ev is not None and ev.get('k') == 'call' and cname(ev) == NODE + '::addChild', back)
        rep.ob(clause, 'K1 pairing', '%s: addChild(%s) is paired with the reverse addParent link (same move, swapped nodes)' % (f.sname, mv), w is None and w2 is None,
               R.site(f, e), 'parent %s child %s' % (par, ch), f.sname)
    # only addChild/addParent (and deserialisation-free constructors) write the containers
    rec = fb.record(NODE)
    if rep.need(clause, rec, 'record ' + NODE):
        for fld in ('children', 'parents'):
            writers = set()
            from ..effects import event_writes
            for f in fb.funcs.values():
                if not f.has_cfg or not R.in_prog(f):
                    continue
                for b, i, e in f.events():
                    if f.d.get('cls') == NODE:
                        may, _ = event_writes(e)
                        if fld in may or (fld + '[]') in may:
                            writers.add(f.sname)
                    elif e.get('k') == 'acc' and isinstance(e.get('e'), dict) and e['e'].get('k') == 'mem' and e['e'].get('f') == NODE + '::' + fld and \
                            e.get('a') in ('w', 'rw', 'rwu', 'mutarg', 'addr'):
                        writers.add(f.sname)
            allowed = {NODE + ('::addChild' if fld == 'children' else '::addParent'), NODE + '::BookNode'}
            rep.ob(clause, 'K5 who-may-write', 'BookNode::%s is modified only by its link function' % fld, writers <= allowed and bool(writers), '%s:%s' % (rec['file'], rec['line']),
                   'writers: %s' % sorted(writers), '')


def _same_obj(a, b):
    norm = lambda s: s.replace('.get()', '').replace('->', '.').replace('*', '').strip('()')
    return norm(a) == norm(b)


def c2_serialize(fb, rep):
    clause = 'C19.2'
    se = fb.find1(NODE + '::serialize')
    de = fb.find1(NODE + '::deSerialize')
    if rep.need(clause, se, NODE + '::serialize') is None or rep.need(clause, de, NODE + '::deSerialize') is None:
        return

    def field_of_arg(f, a):
        """the member a serialiser argument stands for: the member itself, or - for a local temporary - the member it
        is computed from (writer) / handed to (reader)"""
        a = _strip(a)
        p = ap(a)
        if p and p.startswith('this.'):
            return p[5:]
        if isinstance(a, dict) and a.get('k') == 'var' and a.get('vk') == 'local':
            for _, _, ev in f.events():
                if ev.get('k') == 'decl':
                    for v in ev.get('vars', []):
                        if v['id'] == a.get('id') and v.get('init') is not None:
                            for n in walk(v['init']):
                                q = ap(n)
                                if q and q.startswith('this.'):
                                    return 'via ' + q[5:].split('.')[0]
            for _, _, ev in f.events():
                if ev.get('k') == 'call' and ev.get('recv') is not None and (ap(ev['recv']) or '').startswith('this.') and \
                        any(n.get('k') == 'var' and n.get('id') == a.get('id') for x in ev.get('args', []) for n in walk(x)):
                    return 'via ' + ap(ev['recv'])[5:].split('.')[0]
        return show(a)

    def fields(f, callee_suffix):
        for b, i, e in f.events():
            if e.get('k') == 'call' and cname(e).startswith('Serializer::') and cname(e).split('::')[-1] == callee_suffix:
                return [field_of_arg(f, a) for a in e.get('args', [])[1:]], (e.get('n') or '')
        return None, ''
    fs, ns = fields(se, 'serialize')
    fd, nd = fields(de, 'deSerialize')
    rep.ob(clause, 'K10 sibling agreement', 'BookNode::serialize and deSerialize pass the same fields in the same order', fs is not None and fs == fd and len(fs or []) >= 4, se.where,
           'serialize %s, deSerialize %s' % (fs, fd), se.sname)
    size_s = re.search(r'serialize<(\d+)', ns)
    size_d = re.search(r'deSerialize<(\d+)', nd)
    rec = fb.record(NODE + '::BookSerializeData')
    ext = None
    if rec:
        m = re.search(r'\[(\d+)\]', rec['fields'][0]['ct'])
        ext = int(m.group(1)) if m else None
    rep.ob(clause, 'K11 constant agreement', 'both use the full BookSerializeData buffer size', bool(size_s and size_d) and int(size_s.group(1)) == int(size_d.group(1)) == ext, se.where,
           'serialize<%s> deSerialize<%s> buffer %s' % (size_s.group(1) if size_s else None, size_d.group(1) if size_d else None, ext), se.sname)
    # file transfer sizes
    for nm, op in (('BookBuild::Book::readFromFile', 'read'), ('BookBuild::Book::writeToFile', 'write'), ('BookBuild::Book::writeBackup', 'write')):
        f = fb.find1(nm)
        if rep.need(clause, f, nm) is None:
            continue
        sizes = []
        for b, i, e in f.events():
            if e.get('k') == 'call' and cname(e).split('::')[-1] == op and cname(e).startswith('std::basic_') and len(e.get('args', [])) >= 2:
                a = _strip(e['args'][1])
                sizes.append(a.get('cv') if isinstance(a, dict) else None)
        rep.ob(clause, 'K11 constant agreement', '%s transfers exactly one serialised node record per node' % nm.split('::')[-1], bool(sizes) and all(s == ext for s in sizes), f.where,
               'sizes %s, record %s' % (sizes, ext), f.sname)
        # each record goes through (de)serialize
        need = NODE + ('::deSerialize' if op == 'read' else '::serialize')
        has = any(e.get('k') == 'call' and cname(e) == need for _, _, e in f.events())
        rep.ob(clause, 'K2 must-call', '%s converts records with BookNode::%s' % (nm.split('::')[-1], need.split('::')[-1]), has, f.where, '', f.sname)


def c2b_log_replay(fb, rep):
    """K10 writer/reader agreement of the backup log: writeBackup appends a record every time a node is created or gets
    a search result, so one position has several records in the file and the last one is the current one.  The reader must
    therefore let a later record replace an earlier one (map[key] = node); a keep-first insertion restores every node to
    the state in which it first appeared (all scores invalid) - the reloaded book is not the saved one."""
    clause = 'C19.2'
    rd = fb.find1('BookBuild::Book::readFromFile')
    wb = fb.find1('BookBuild::Book::writeBackup')
    if rep.need(clause, rd, 'Book::readFromFile') is None or rep.need(clause, wb, 'Book::writeBackup') is None:
        return
    appends = any(n.get('k') == 'var' and str(n.get('q', '')).endswith('::app') or (n.get('k') == 'var' and n.get('n') == 'app')
                  for _, _, e in wb.events() for n in walk(e))
    rep.ob(clause, 'K10 writer/reader agreement', 'writeBackup appends to the backup file (several records per position can exist)', appends, wb.where, '', wb.sname)
    over, keep = [], []
    for b, i, e in rd.events():
        if e.get('k') != 'call':
            continue
        last = cname(e).split('::')[-1]
        r = _strip(e.get('recv'))
        if last == 'operator=' and isinstance(r, dict) and r.get('k') == 'call' and r.get('op') == '[]' and (ap(r.get('recv')) or '').endswith('.bookNodes'):
            over.append(e)
        if last in ('insert', 'emplace', 'try_emplace', 'emplace_hint') and (ap(r) or '').endswith('.bookNodes'):
            keep.append(e)
        if last == 'insert_or_assign' and (ap(r) or '').endswith('.bookNodes'):
            over.append(e)
    rep.ob(clause, 'K10 writer/reader agreement', 'readFromFile lets a later record of a position replace the earlier one', bool(over) and not keep, R.site(rd, (keep or over or [{}])[0]) if (keep or over) else rd.where,
           '%d replacing store(s), %d keep-first insertion(s) into bookNodes' % (len(over), len(keep)), rd.sname)


def c3_change_detection(fb, rep):
    clause = 'C19.3'
    n_pairs = 0
    for nm in (NODE + '::computeNegaMax', NODE + '::computePathError'):
        f = fb.find1(nm)
        if rep.need(clause, f, nm) is None:
            continue
        snaps = {}
        for b, i, e in f.events():
            if e.get('k') == 'decl':
                for v in e.get('vars', []):
                    if v['n'].startswith('old') and isinstance(v.get('init'), dict):
                        p = ap(_strip(v['init']))
                        if p and p.startswith('this.'):
                            snaps[v['n']] = (p[5:], v['id'], e)
        # comparisons in the returned expression
        cmps = []
        for b, i, e in f.events():
            if e.get('k') == 'ret':
                # the return value may be assembled over several blocks (|| chains): collect all != comparisons of the function that involve a snapshot
                pass
        for bid, blk in f.blocks.items():
            srcs = [ev for ev in blk['ev'] if ev.get('k') == 'ret']
            t = blk.get('term')
            for tree in [ev.get('e') for ev in srcs] + ([t.get('cond')] if t and t.get('cond') is not None else []):
                for n in walk(tree):
                    if n.get('k') == 'bin' and n.get('op') in ('!=', '=='):
                        l, r = _strip(n.get('l')), _strip(n.get('r'))
                        for x, y in ((l, r), (r, l)):
                            if isinstance(y, dict) and y.get('k') == 'var' and y.get('n') in snaps and ap(x) and ap(x).startswith('this.'):
                                cmps.append((y['n'], ap(x)[5:]))
        cmps = sorted(set(cmps))
        for name, (fld, vid, e) in sorted(snaps.items()):
            n_pairs += 1
            used = [c for c in cmps if c[0] == name]
            ok = len(used) >= 1 and all(c[1] == fld for c in used)
            rep.ob(clause, 'K10 snapshot agreement', '%s: snapshot %s of field %s is compared with the same field' % (nm.split('::')[-1], name, fld), ok, R.site(f, e),
                   'compared with: %s' % [c[1] for c in used], f.sname)
        # every score field the function writes is snapshotted
        written = set()
        for b, i, e in f.events():
            if e.get('k') == 'asg' and (ap(e.get('l')) or '').startswith('this.'):
                written.add(ap(e['l'])[5:])
        snap_fields = {v[0] for v in snaps.values()}
        rep.ob(clause, 'K13 completeness', '%s reports a change of every field it recomputes' % nm.split('::')[-1], written <= snap_fields and bool(written), f.where,
               'recomputed %s, snapshotted %s' % (sorted(written), sorted(snap_fields)), f.sname)
        # distinct snapshots come from distinct fields
        flds = [v[0] for v in snaps.values()]
        rep.ob(clause, 'K10 snapshot agreement', '%s: no two snapshots are taken from the same field' % nm.split('::')[-1], len(flds) == len(set(flds)), f.where, str(sorted(flds)), f.sname)
    rep.floor(clause, 'old-value snapshots in the recompute functions', n_pairs, 5)
    # updateScores propagates on change
    cands = [f for f in fb.funcs.values() if f.has_cfg and f.sname == NODE + '::updateScores']
    rep.floor(clause, 'updateScores', len(cands), 1)
    recompute = (NODE + '::computeNegaMax', NODE + '::computePathError')
    for f in cands:
        bodies = [f] + fb.lambdas_in(f)
        n_calls = 0
        n_used = 0
        for g in bodies:
            for b, i, e in g.events():
                if e.get('k') == 'decl':
                    for v in e.get('vars', []):
                        if any(n.get('k') == 'call' and cname(n) in recompute for n in walk(v.get('init'))):
                            n_calls += 1
                            tested = any(any(n.get('k') == 'var' and n.get('id') == v['id'] for n in walk((blk.get('term') or {}).get('cond') or {})) for blk in g.blocks.values())
                            n_used += 1 if tested else 0
            for bid, blk in g.blocks.items():
                c = (blk.get('term') or {}).get('cond')
                if c is not None and any(n.get('k') == 'call' and cname(n) in recompute for n in walk(c)):
                    n_calls += 1
                    n_used += 1
        rep.ob(clause, 'K2 must-use', 'updateScores uses the "changed" result of every recompute call to decide about propagation', n_calls >= 2 and n_used == n_calls, f.where,
               '%d recompute calls, %d results tested' % (n_calls, n_used), f.sname)


# ---------------------------------------------------------------------------------------------------------------
# C19.5  dependency completeness of the path-error recompute set

def _node_field(n):
    f = n.get('f') or ''
    return f[len(NODE) + 2:] if n.get('k') == 'mem' and f.startswith(NODE + '::') else None


def _is_this(t):
    t = _strip(t)
    return isinstance(t, dict) and (t.get('k') == 'this' or (t.get('k') == 'un' and t.get('op') == '*' and _is_this(t.get('e'))))


def _all_trees(func):
    for _, _, e in func.events():
        yield e
    for bid, blk in func.blocks.items():
        c = (blk.get('term') or {}).get('cond')
        if c is not None and bid not in func.dead:
            yield c


def _node_reads(fb, func):
    """(fields of the node itself, fields of another node) read by a BookNode member function; calls to
    BookNode member functions on either are resolved one level (the getters)."""
    own, other = set(), set()
    for t in _all_trees(func):
        for n in walk(t):
            fld = _node_field(n)
            if fld is not None:
                (own if _is_this(n.get('b')) else other).add(fld)
            elif n.get('k') == 'call' and n.get('repo') and cname(n).startswith(NODE + '::') and n.get('recv') is not None:
                g = fb.find1(cname(n))
                if g is None or not g.has_cfg:
                    continue
                sub = {q[5:] for q in R.this_fields_read(g)}
                (own if _is_this(n.get('recv')) else other).update(sub)
    return own, other


def _node_writes(func):
    out = set()
    for _, _, e in func.events():
        for n in walk(e):
            if n.get('k') in ('asg', 'incdec'):
                tgt = _strip(n.get('l') if n.get('k') == 'asg' else n.get('e'))
                fld = _node_field(tgt) if isinstance(tgt, dict) else None
                if fld is not None and _is_this(tgt.get('b')):
                    out.add(fld)
    return out


def _decl_of(func, vid):
    for b, i, e in func.events():
        if e.get('k') == 'decl':
            for v in e.get('vars', []):
                if v.get('id') == vid:
                    return v
    return None


def _same_expr(a, b):
    a, b = _strip(a), _strip(b)
    if not (isinstance(a, dict) and isinstance(b, dict)):
        return False
    if a.get('k') == 'var' and b.get('k') == 'var':
        return a.get('id') == b.get('id')
    return a.get('k') == 'this' and b.get('k') == 'this'


def _element_of_children(func, expr, node):
    """expr is `v.second` (or `v->second`) where v is the loop variable of a range-for over `node->children`."""
    expr = _strip(expr)
    if not (isinstance(expr, dict) and expr.get('k') == 'mem' and (expr.get('f') or '').endswith('::second')):
        return False
    v = _strip(expr.get('b'))
    seen = 0
    while isinstance(v, dict) and seen < 16:
        seen += 1
        if v.get('k') == 'var':
            d = _decl_of(func, v.get('id'))
            if d is None:
                return False
            v = _strip(d.get('init'))
        elif v.get('k') == 'call' and v.get('recv') is not None and (v.get('op') == '*' or cname(v).split('::')[-1] in ('begin', 'cbegin')):
            v = _strip(v.get('recv'))
        elif v.get('k') == 'ctor' and v.get('args'):
            v = _strip(v['args'][0])
        elif v.get('k') == 'mem':
            return _node_field(v) == 'children' and _same_expr(v.get('b'), node)
        else:
            return False
    return False


def _guards_after(func, start, b):
    """Guards of block b that are decided at or after block `start` (a dominator of b); loop conditions of
    compiler-generated range-for iterators are not guards of the loop body for this purpose."""
    doms = func.dominators()
    blocks = {x for x in func.blocks if start in doms.get(x, set())}
    out = []
    for ce, side in G.guard_trees(func, blocks, b, skip_loops=True):
        if any(n.get('k') == 'var' and str(n.get('n', '')).startswith('__begin') for n in walk(ce)):
            continue
        out.append((ce, side))
    return out


def c5_recompute_dependencies(fb, rep):
    """K13: updateScores recomputes path errors only for the nodes it collects.  A node's path error is a
    function of (a) fields of the node itself and (b) fields of its parents, as read by computePathError.  So when
    a recompute call on node X reports a change of a field in (a), X itself must be scheduled; when it reports a
    change of a field in (b), every child of X must be scheduled - on every path on which the change is reported.
    The dependency table is derived from computePathError and the recompute functions on every run."""
    clause = 'C19.5'
    reader_nm = NODE + '::computePathError'
    reader = fb.find1(reader_nm)
    if rep.need(clause, reader, reader_nm) is None:
        return
    own_reads, other_reads = _node_reads(fb, reader)
    writers = {}
    for nm in (NODE + '::computeNegaMax', reader_nm):
        f = fb.find1(nm)
        if rep.need(clause, f, nm) is None:
            return
        writers[nm] = _node_writes(f)
    cands = [f for f in fb.funcs.values() if f.has_cfg and f.sname == NODE + '::updateScores']
    rep.floor(clause, 'updateScores', len(cands), 1)
    n_dep = 0
    for f in cands:
        bodies = [f] + fb.lambdas_in(f)
        # schedulers: lambdas that call the reader on their own parameter, and the std::function variables holding them
        sched_names = set()
        for b, i, e in f.events():
            if e.get('k') == 'decl':
                for v in e.get('vars', []):
                    for lam in R.lambdas_in_tree(fb, v.get('init')):
                        pids = {p.get('id') for p in lam.d.get('params', [])}
                        if any(n.get('k') == 'call' and cname(n) == reader_nm and isinstance(_strip(n.get('recv')), dict)
                               and _strip(n['recv']).get('k') == 'var' and _strip(n['recv']).get('id') in pids
                               for t in _all_trees(lam) for n in walk(t)):
                            sched_names.add(v['n'])
        # the recompute set: a local std::set of nodes drained by a range-for that hands every element to a scheduler
        set_names = set()

        def direct(e):
            """node expression handed directly to the path-error recomputation by event e, or None"""
            if e.get('k') != 'call':
                return None
            if cname(e) == reader_nm:
                return e.get('recv')
            r = _strip(e.get('recv'))
            if e.get('op') == '()' and isinstance(r, dict) and r.get('k') == 'var' and r.get('n') in sched_names and e.get('args'):
                return e['args'][0]
            return None
        for b, i, e in f.events():
            x = direct(e)
            x = _strip(x) if x is not None else None
            if isinstance(x, dict) and x.get('k') == 'var':
                # loop variable of a range-for over a local set?
                v = x
                for _ in range(16):
                    if not isinstance(v, dict):
                        break
                    if v.get('k') == 'var':
                        d = _decl_of(f, v.get('id'))
                        if d is None or 'std::set<' + NODE in (d.get('rc') or '') and not str(d['n']).startswith('__'):
                            break
                        v = _strip(d.get('init'))
                    elif v.get('k') == 'call' and v.get('recv') is not None:
                        v = _strip(v.get('recv'))
                    elif v.get('k') == 'ctor' and v.get('args'):
                        v = _strip(v['args'][0])
                    else:
                        break
                if isinstance(v, dict) and v.get('k') == 'var' and 'std::set<' + NODE in (v.get('rc') or ''):
                    ok = not _guards_after(f, f.entry, b)
                    rep.ob(clause, 'K13 dependency completeness', 'updateScores hands every node of the recompute set to the path-error recomputation', ok, R.site(f, e),
                           'set ' + v['n'] + ', guards: %s' % [show(c, 80) for c, _ in _guards_after(f, f.entry, b)], f.sname)
                    n_dep += 1
                    set_names.add(v['n'])

        def scheduled(g, e):
            x = direct(e)
            if x is not None:
                return x
            r = _strip(e.get('recv')) if e.get('k') == 'call' else None
            if isinstance(r, dict) and r.get('k') == 'var' and r.get('n') in set_names and cname(e).split('::')[-1] in ('insert', 'emplace') and e.get('args'):
                return e['args'][0]
            return None
        for g in bodies:
            doms = g.dominators()
            for b, i, e in g.events():
                if e.get('k') != 'decl':
                    continue
                for v in e.get('vars', []):
                    call = _strip(v.get('init'))
                    if not (isinstance(call, dict) and call.get('k') == 'call' and cname(call) in writers):
                        continue
                    w = cname(call)
                    node = _strip(call.get('recv'))
                    needs = []
                    if w != reader_nm and writers[w] & own_reads:
                        needs.append(('the node itself', sorted(writers[w] & own_reads), lambda x: _same_expr(x, node)))
                    if writers[w] & other_reads:
                        needs.append(('every child of the node', sorted(writers[w] & other_reads), lambda x, g=g: _element_of_children(g, x, node)))
                    for what, flds, match in needs:
                        n_dep += 1
                        ok = False
                        detail = 'no such scheduling site'
                        for b2, i2, e2 in g.events():
                            x = scheduled(g, e2)
                            if x is None or not match(x):
                                continue
                            if b in doms.get(b2, set()):
                                gs = _guards_after(g, b, b2)
                                bad = [c for c, side in gs if not (side and isinstance(_strip(c), dict) and _strip(c).get('k') == 'var' and _strip(c).get('id') == v['id'])]
                                detail = 'guards after the call: %s' % [('' if s_ else '!') + show(c, 60) for c, s_ in gs]
                                if not bad:
                                    ok = True
                                    break
                            elif b2 in doms.get(b, set()) and not _guards_after(g, g.entry, b2):
                                ok = True
                                detail = 'scheduled unconditionally before the call'
                                break
                        rep.ob(clause, 'K13 dependency completeness',
                               'updateScores: when %s reports a change, %s is scheduled for the path-error recomputation, which reads %s of %s'
                               % (w.split('::')[-1], what, '/'.join(flds), 'the node' if what.startswith('the node') else 'its parent'),
                               ok, R.site(g, e), detail, f.sname)
    rep.floor(clause, 'recompute dependencies of updateScores', n_dep, 4)


# ---------------------------------------------------------------------------------------------------------------
# C19.6  depth is relaxed over every parent and every change is pushed to every child

def c6_depth_propagation(fb, rep):
    """K13: a node's depth is 1 + the smallest parent depth.  updateDepth relaxes it over the parents and, when it
    changed, must push the change to *every* child (a child filtered out keeps a depth that no longer has a
    witness parent); a new parent link must trigger the relaxation."""
    clause = 'C19.6'
    nm = NODE + '::updateDepth'
    f = fb.find1(nm)
    if rep.need(clause, f, nm) is None:
        return
    this = {'k': 'this'}
    writes = []
    for b, i, e in f.events():
        if e.get('k') == 'asg' and _node_field(_strip(e.get('l')) or {}) == 'depth' and _is_this((_strip(e.get('l')) or {}).get('b')):
            writes.append((b, i, e))
    rep.floor(clause, 'writes of depth in updateDepth', len(writes), 1)
    # the relaxation: `if (depth > X) depth = X` with the same X
    for b, i, e in writes:
        gs = [(c, side) for c, side in G.guard_trees(f, set(f.blocks), b) if not any(n.get('k') == 'var' and str(n.get('n', '')).startswith('__begin') for n in walk(c))]
        rel = [c for c, side in gs if side and c.get('k') == 'bin' and c.get('op') in ('>', '<')]
        ok = False
        for c in rel:
            l, r = (_strip(c.get('l')), _strip(c.get('r'))) if c.get('op') == '>' else (_strip(c.get('r')), _strip(c.get('l')))
            if isinstance(l, dict) and _node_field(l) == 'depth' and _is_this(l.get('b')) and show(r, 200) == show(_strip(e.get('r')), 200):
                ok = True
        rep.ob(clause, 'K10 relaxation agreement', 'updateDepth lowers depth to exactly the bound it was compared with', ok, R.site(f, e),
               'guards: %s; assigned: %s' % ([('' if s_ else '!') + show(c, 60) for c, s_ in gs], show(e.get('r'), 60)), f.sname)
    # the changed flag is raised with every write
    flags = {}
    for b, i, e in f.events():
        if e.get('k') == 'asg' and isinstance(_strip(e.get('l')), dict) and _strip(e['l']).get('k') == 'var' and (_strip(e.get('r')) or {}).get('cv') == 1:
            flags.setdefault(_strip(e['l'])['id'], []).append(b)
    flag = next((vid for vid, blks in flags.items() if all(wb in blks for wb, _, _ in writes)), None) if writes else None
    rep.ob(clause, 'K13 completeness', 'updateDepth raises its changed flag in the same block as every write of depth', flag is not None, f.where,
           'flag candidates: %s' % sorted(flags), f.sname)
    # under the flag every child is visited
    ok = False
    detail = 'no recursive call on the elements of children'
    for b, i, e in f.events():
        if e.get('k') == 'call' and cname(e) == nm and _element_of_children(f, e.get('recv'), this):
            gs = _guards_after(f, f.entry, b)
            bad = [c for c, side in gs if not (side and isinstance(_strip(c), dict) and _strip(c).get('k') == 'var' and _strip(c).get('id') == flag)]
            detail = 'guards: %s' % [('' if s_ else '!') + show(c, 60) for c, s_ in gs]
            if not bad:
                ok = True
                break
    rep.ob(clause, 'K13 completeness', 'updateDepth: when the depth changed, every child is updated (no filter on the children)', ok, f.where, detail, f.sname)
    # a new parent link triggers the relaxation
    ap_ = fb.find1(NODE + '::addParent')
    if rep.need(clause, ap_, NODE + '::addParent') is not None:
        ins = [(b, i) for b, i, e in ap_.events() if e.get('k') == 'call' and cname(e).split('::')[-1] in ('insert', 'emplace') and _node_field(_strip(e.get('recv')) or {}) == 'parents']
        ok = bool(ins) and all(ap_.path_avoiding(pos, R.at_exit, R.is_named_call(nm)) is None for pos in ins)
        rep.ob(clause, 'K2 must-call', 'addParent relaxes the depth after inserting the parent link on every path', ok, ap_.where, '%d insertion(s)' % len(ins), ap_.sname)


# ---------------------------------------------------------------------------------------------------------------
# C19.7  the node updateScores is called on always has its parents recomputed

def c7_parents_of_start(fb, rep):
    """K4: a parent's negamax score and expansion costs are functions of the *set* of its children and of their values.
    updateScores() is called on a node when its own data changed - and also right after the node was linked into the graph
    (addPosToBook), when nothing of the node changes but its parents have a new child.  So the walk towards the root must
    start unconditionally at the node updateScores was called on; only further up may it stop where nothing changed.  The
    guard of the parent recursion is evaluated for (the start node, "nothing changed"): it must let the recursion happen."""
    clause = 'C19.7'
    cands = [f for f in fb.funcs.values() if f.has_cfg and f.sname == NODE + '::updateScores']
    if rep.need(clause, cands, NODE + '::updateScores') is None:
        return
    f = cands[0]
    n = 0
    for g in fb.lambdas_in(f):
        params = g.d.get('params', [])
        # the change flag: local initialised from computeNegaMax
        flag = None
        for _, _, e in g.events():
            if e.get('k') == 'decl':
                for v in e.get('vars', []):
                    if any(x.get('k') == 'call' and cname(x) == NODE + '::computeNegaMax' for x in walk(v.get('init') or {})):
                        flag = v['id']
        if flag is None:
            continue
        node_id = params[0].get('id') if params else None
        for b, i, e in g.events():
            # recursion into a parent: a call of the enclosing std::function whose first argument comes from the parents container
            if not (e.get('k') == 'call' and e.get('op') == '()' and e.get('args')):
                continue
            a0 = _strip(e['args'][0])
            src = a0
            hops = 0
            from_parents = False
            while isinstance(src, dict) and hops < 10:
                hops += 1
                if src.get('k') == 'var':
                    d = _decl_of(g, src.get('id'))
                    if d is None:
                        break
                    src = _strip(d.get('init'))
                elif src.get('k') == 'mem':
                    if _node_field(src) == 'parents':
                        from_parents = True
                        break
                    src = _strip(src.get('b'))
                elif src.get('k') == 'call' and src.get('recv') is not None:
                    src = _strip(src.get('recv'))
                elif src.get('k') == 'ctor' and src.get('args'):
                    src = _strip(src['args'][0])
                else:
                    break
            if not from_parents:
                continue
            n += 1
            guards = _guards_after(g, g.entry, b)
            bool_params = [p_.get('id') for p_ in params[1:]]

            def tv(t, is_start):
                t = _strip(t)
                if not isinstance(t, dict):
                    return None
                if t.get('k') == 'var':
                    if t.get('id') == flag:
                        return False              # nothing changed
                    if t.get('id') in bool_params:
                        return True               # the walk towards the root is requested
                    return None
                if t.get('k') == 'un' and t.get('op') == '!':
                    x = tv(t.get('e'), is_start)
                    return None if x is None else (not x)
                if t.get('k') == 'bin' and t.get('op') in ('&&', '||'):
                    a, b_ = tv(t.get('l'), is_start), tv(t.get('r'), is_start)
                    if t['op'] == '&&':
                        return False if (a is False or b_ is False) else (True if (a is True and b_ is True) else None)
                    return True if (a is True or b_ is True) else (False if (a is False and b_ is False) else None)
                if t.get('k') == 'bin' and t.get('op') in ('==', '!='):
                    l, r = _strip(t.get('l')), _strip(t.get('r'))
                    ids = {(l or {}).get('id'), (r or {}).get('id')}
                    if node_id in ids and len(ids) == 2:
                        # the current node compared with a captured node pointer: the start node
                        return is_start if t['op'] == '==' else (not is_start)
                return None
            blocked = [show(c, 60) for c, side in guards if tv(c, True) is not None and tv(c, True) != side]
            rep.ob(clause, 'K4 guard', 'updateScores: the parents of the node it was called on are recomputed even when the node itself did not change (they may have gained it as a child)',
                   not blocked, R.site(g, e), 'guards of the parent recursion: %s; false for (start node, unchanged): %s' % ([('' if s_ else '!') + show(c, 60) for c, s_ in guards], blocked), f.sname)
    rep.floor(clause, 'parent recursions in updateScores', n, 1)


# ----------------------------------------------------------------------------- .8

def c8_pending_marks(fb, rep):
    """K2 the pending marks are an input of the expansion-cost equations (a node being searched is excluded from the choice of
    what to expand next), so the scores are a fixed point only if every change of a mark is followed by a recomputation
    from that node.  Every call of a function that inserts into / erases from BookData::pendingPositions must be followed,
    on every path to the caller's exit, by a call of BookNode::updateScores.  A mark erased without it - on the path where
    a discarded search result skips setSearchResult - leaves the node and its ancestors with costs computed for a pending
    node, which a save + reload does not reproduce."""
    clause = 'C19.8'
    writers = set()
    for f in fb.funcs.values():
        if not f.has_cfg or not R.in_prog(f):
            continue
        for b, i, e in f.events():
            if e.get('k') == 'call' and e.get('recv') is not None and (ap(e['recv']) or '').endswith('.pendingPositions') and \
                    cname(e).split('::')[-1] in ('insert', 'erase', 'clear', 'emplace', 'swap', 'operator='):
                writers.add(f.sname)
    if rep.floor(clause, 'functions that change the pending marks', len(writers), 2) is False or not writers:
        return
    # a failed assertion does not return: such a path is not a path to the caller's exit
    is_update = lambda e: e is not None and e.get('k') == 'call' and (cname(e).split('::')[-1] == 'updateScores' or cname(e) in ('__assert_fail', 'abort', 'std::abort', 'std::terminate'))
    # wrappers: functions of the book builder that recompute on every path (setSearchResult, ...), to a fixed point
    base_update = is_update
    always = set()
    cands = [g for g in fb.funcs.values() if g.has_cfg and R.in_prog(g) and g.sname.startswith('BookBuild::')]
    for _ in range(4):
        grew = False
        upd = lambda e: base_update(e) or (e is not None and e.get('k') == 'call' and cname(e) in always)
        for g in cands:
            if g.sname not in always and g.sname.split('::')[-1] != 'updateScores' and g.path_avoiding((g.entry, -1), R.at_exit, upd) is None:
                always.add(g.sname)
                grew = True
        if not grew:
            break
    is_update = lambda e: base_update(e) or (e is not None and e.get('k') == 'call' and cname(e) in always)
    rep.extra['functions_that_always_recompute'] = sorted(always)
    n = 0
    for f in sorted(fb.funcs.values(), key=lambda x: x.key):
        if not f.has_cfg or not R.in_prog(f) or f.sname in writers:
            continue
        for b, i, e in f.events():
            if e.get('k') == 'call' and cname(e) in writers:
                n += 1
                w = f.path_avoiding((b, i), R.at_exit, is_update)
                rep.ob(clause, 'K2 must-pass-through', '%s: the change of a pending mark (%s) is followed by updateScores on every path' % (f.sname.split('::')[-1], cname(e).split('::')[-1]),
                       w is None, R.site(f, e), '' if w is None else 'path to the exit without a recomputation: ' + ' -> '.join('B%s@%s' % x for x in w[-6:]), f.sname)
    rep.floor(clause, 'call sites that change a pending mark', n, 2)


# ----------------------------------------------------------------------------- .9

def c9_search_result_recomputed(fb, rep):
    """K2 the search result of a node - its score *and* its best non-book move - is an input of the node's equations: the move
    decides whether the search score counts in the negamax value at all (it does not once that move has become a child)
    and whether the node's own expansion cost is the "already in the book" value.  Every function of BookNode that writes
    either field must reach updateScores on every path from the write to its exit; skipping the recomputation because the
    score is unchanged leaves the values computed for the old move in place."""
    clause = 'C19.9'
    INPUTS = ('bestNonBookMove', 'searchScore')
    is_update = lambda e: e is not None and e.get('k') == 'call' and (cname(e).split('::')[-1] == 'updateScores' or cname(e) in ('__assert_fail', 'abort', 'std::abort', 'std::terminate'))
    n = 0
    for f in sorted(fb.funcs.values(), key=lambda x: x.key):
        if not f.has_cfg or not R.in_prog(f) or not f.sname.startswith('BookBuild::BookNode::') or f.d.get('ctor') or f.d.get('dtor'):
            continue
        for b, i, e in f.events():
            tgt = e.get('l') if e.get('k') == 'asg' else (e.get('recv') if e.get('k') == 'call' and e.get('op') == '=' else None)
            p_ = ap(tgt) if tgt is not None else None
            if p_ is None or not p_.startswith('this.') or p_.split('.')[-1] not in INPUTS:
                continue
            n += 1
            w = f.path_avoiding((b, i), R.at_exit, is_update)
            rep.ob(clause, 'K2 must-pass-through', '%s: the write of %s is followed by updateScores on every path' % (f.sname.split('::')[-1], p_.split('.')[-1]), w is None, R.site(f, e),
                   '' if w is None else 'path to the exit without a recomputation: ' + ' -> '.join('B%s@%s' % x for x in w[-6:]), f.sname)
    rep.floor(clause, 'writes of a node\'s search result outside constructors', n, 2)


# ----------------------------------------------------------------------------- .10

def c10_every_child_counts(fb, rep):
    """K2 the negamax value of a node is the maximum over its own (counted) search score and the negated values of *all* its
    children; the special values are ordered on purpose (IGNORE < INVALID < every real score) so that a plain maximum
    gives INVALID for a node whose children are all still unsearched.  The loop over the children in computeNegaMax must
    therefore reach the max-update on every iteration: a child that is skipped changes the value the equations define
    (and with it path errors and the moves offered for searching)."""
    clause = 'C19.10'
    fs = [x for x in fb.funcs.values() if x.has_cfg and x.sname.endswith('BookNode::computeNegaMax')]
    if rep.need(clause, fs, 'BookNode::computeNegaMax') is None:
        return
    f = fs[0]
    loops = f.natural_loops()
    # the running maximum: negaMaxScore = max(negaMaxScore, ...)
    upd = lambda e: e is not None and e.get('k') == 'asg' and ap(e.get('l')) == 'this.negaMaxScore' and \
        any(isinstance(n, dict) and n.get('k') == 'call' and cname(n) == 'std::max' and any(ap(a) == 'this.negaMaxScore' for a in n.get('args', [])) for n in walk(e.get('r')))
    n = 0
    for h, body in sorted(loops.items()):
        sites = [(b, e) for b in body for e in f.blocks[b]['ev'] if upd(e)]
        if not sites:
            continue
        n += 1
        latches = [b for b in body if h in f.blocks[b]['succ'] and b != h]
        from collections import deque
        seen, dq, leak = set(), deque((s_, (s_,)) for s_ in f.blocks[h]['succ'] if s_ in body), None
        while dq and leak is None:
            b, trail = dq.popleft()
            if b in seen:
                continue
            seen.add(b)
            if any(upd(e) for e in f.blocks[b]['ev']):
                continue
            if b in latches:
                leak = trail
                break
            for s_ in f.blocks[b]['succ']:
                if s_ in body and s_ != h:
                    dq.append((s_, trail + (s_,)))
        rep.ob(clause, 'K2 must-pass-through', 'computeNegaMax: every child contributes to the maximum (no iteration of the children loop skips the update)', leak is None,
               R.site(f, sites[0][1]), '' if leak is None else 'iteration without the update: ' + ' -> '.join('B%s@%s' % (x, f.block_line(x)) for x in leak[-6:]), f.sname)
    rep.floor(clause, 'children loops that update the negamax value', n, 1)


# ----------------------------------------------------------------------------- .11

def c11_move_error_uses_negation(fb, rep):
    """K10 sibling agreement on how a child's value is seen from its parent.  Scores are negated with BookNode::negateScore,
    which also shifts mate scores by one ply; the negamax equation uses it.  The error of the move into a node - parent's
    value minus the node's value seen from the parent - must use the same negation: a plain `+` agrees for centipawn
    scores and is off by one for every node that holds a mate score (and trips the `delta >= 0` assertion for the best
    child of a losing node)."""
    clause = 'C19.11'
    fs = [x for x in fb.funcs.values() if x.has_cfg and x.sname.endswith('BookNode::computePathError')]
    if rep.need(clause, fs, 'BookNode::computePathError') is None:
        return
    f = fs[0]
    n = 0
    for b, i, e in f.events():
        if e.get('k') != 'decl':
            continue
        for v in e.get('vars', []):
            init = v.get('init')
            if init is None:
                continue
            calls = [x for x in walk(init) if isinstance(x, dict) and x.get('k') == 'call' and cname(x).split('::')[-1] in ('getNegaMaxScore',)]
            mems = [x for x in walk(init) if isinstance(x, dict) and x.get('k') == 'mem' and (x.get('f') or '').endswith('::negaMaxScore')]
            if len(calls) + len(mems) < 2:
                continue
            n += 1
            neg = [x for x in walk(init) if isinstance(x, dict) and x.get('k') == 'call' and cname(x).split('::')[-1] == 'negateScore' and
                   any(isinstance(y, dict) and ((y.get('k') == 'call' and cname(y).split('::')[-1] == 'getNegaMaxScore') or (y.get('k') == 'mem' and (y.get('f') or '').endswith('::negaMaxScore'))) for y in walk(x))]
            rep.ob(clause, 'K10 sibling agreement', 'computePathError: the difference of two nodes\' negamax values negates the child\'s value with negateScore', len(neg) == 1, R.site(f, e), show(init, 100), f.sname)
    rep.floor(clause, 'differences of two negamax values in computePathError', n, 1)
