"""C17 - move, position and game text formats.  Clauses decided:
 .1 K10 inverse tables: FEN piece letters, castling letters, piece/promotion letters of the
        three move formats (reader and writer agree, by constant evaluation of the switches)
 .2 K4  TextIO::getSquare precondition: every call site passes a 2-character substring whose
        existence is established by a dominating length test
 .3 K12 external integers are range-checked before they can index a table
        (the half-move clock that Position::historyHash / bookHash index with)
 .4 K14 parser entry points can only raise the ChessError family
 .5 K10 colour coherence of pawn-direction square offsets: every `square +/- 8k` is decided by
        the mover's colour and has its mirrored sibling (en-passant victim, double push origin)
"""
import re

from ..core import cname, ap, walk, show, strip_not, eff_cond
from ..peval import Evaluator, Unknown, run_switch
from .. import exceptions as X
from .. import regions as G
from .. import rules as R
from . import common

EXPLANATION = (
    'Static rules over the resolved program. Decided: (1) by constant evaluation of the switch tables: readFEN letter->piece and '
    'toFEN piece->letter are mutually inverse over all 12 pieces; castling letters<->bits agree between readFEN and '
    'castleMaskToString; charToPiece(colour(p), pieceToChar(p)) == p for all 12 pieces; the promotion letters written by '
    'moveToUCIString and SearchListener::moveToString are read back to the same piece by uciStringToMove; (2) all three call sites of '
    'TextIO::getSquare pass substr(a, 2) under a dominating test that implies length >= a + 2; (3) every engine-side writer of the '
    'half-move clock passes a non-negative constant, a value read back from a position, or an external integer guarded by >= 0, '
    'and the readers index moveCntKeys with min(clock, 100) against an array of 101 entries; (4) readFEN, stringToMove, '
    'uciStringToMove and the UCI command handler can only let ChessError-family exceptions escape, and the UCI loop catches '
    'ChessParseError; (5) all pawn-direction square offsets (+/-8, +/-16) in the position, text and UCI code are colour-decided and '
    'occur in mirrored white/black pairs.'
    ' (6) PGN scanner look-ahead: every character read is appended, matched as a delimiter, skipped as white space or handed back before the next read / the return.'
    ' Added later; the UCI promotion suffix of both printers is obtained by interpreting them per promotion code (fall-through and table look-up forms included).'
    ' Added later; (8) in every token-reading loop of the PGN parser the arm that recognises END has no path back to the loop header. (9) the castling text of the short / long form is printed for exactly the king\'s two-square moves from home (all 64 x 64 x 12 from/to/piece). (10) readFEN bounds the men per side by 16, which the unchecked 256-entry MoveList relies on - found and fixed defect D18. (11) the disambiguation scan of moveToString visits every index of the legal-move list (sizes 0..8 evaluated). (3, extended) an external half-move clock is bounded above as well as below before it is stored - found and fixed defect D21. (12) every token read with a running index in the UCI command handler is preceded by a fresh test that the index is below the token count.')
UNDECIDED = ('uniqueness of short move forms, round-trip equality of values, robustness against every byte string (needs execution); '
             'PGN tree round trip beyond the scanner look-ahead discipline of clause 6.')
ASSUMPTIONS = ['char is an 8-bit type; the piece enumerators are those of Piece::Type',
               'a position with at most 16 men per side has at most 256 pseudo-legal moves (the usual engine bound; the known maximum of legal moves is 218): C17.10 checks the 16, not the 256']


def _strip(t):
    while isinstance(t, dict) and t.get('k') == 'cast':
        t = t.get('e')
    return t


def run(fb, rep, tier):
    c1_tables(fb, rep)
    c2_getsquare(fb, rep)
    c3_external_ints(fb, rep)
    c4_exceptions(fb, rep)
    c5_pawn_offsets(fb, rep)
    c6_scanner_lookahead(fb, rep)
    c7_eof_width(fb, rep)
    c8_end_token_leaves_loops(fb, rep)
    c9_castle_text(fb, rep)
    c10_men_per_side_bounded(fb, rep)
    c11_disambiguation_scan(fb, rep)
    c12_token_index_bounded(fb, rep)


PIECES = ['WKING', 'WQUEEN', 'WROOK', 'WBISHOP', 'WKNIGHT', 'WPAWN', 'BKING', 'BQUEEN', 'BROOK', 'BBISHOP', 'BKNIGHT', 'BPAWN']


def switch_arms(f, switch_pred=None):
    """{label value: arm start block} of the (first) switch in f whose condition satisfies switch_pred."""
    for bid in sorted(f.blocks, reverse=True):
        blk = f.blocks[bid]
        t = blk.get('term')
        if not t or t.get('c') != 'SwitchStmt':
            continue
        if switch_pred is not None and not switch_pred(t.get('cond')):
            continue
        arms = {}
        for b2, bb in f.blocks.items():
            lb = bb.get('label') or {}
            if lb.get('k') == 'case' and 'v' in lb and (b2 in blk['succ'] or _reached_from_switch(f, bid, b2)):
                arms[lb['v']] = b2
        return bid, arms
    return None, {}


def _reached_from_switch(f, sw, b):
    # fall-through case labels: predecessor chain of case blocks leading back to a successor of the switch
    seen = set()
    st = [b]
    while st:
        x = st.pop()
        if x in seen:
            continue
        seen.add(x)
        for p in f.preds.get(x, []):
            if p == sw:
                return True
            if (f.blocks[p].get('label') or {}).get('k') == 'case' and not f.blocks[p]['ev']:
                st.append(p)
    return False


def arm_first(f, start, pred, limit=12):
    """First event satisfying pred in the arm that starts at `start` (breadth-first, stopping at other case labels)."""
    seen = set()
    dq = [start]
    n = 0
    while dq and n < limit:
        b = dq.pop(0)
        if b in seen:
            continue
        seen.add(b)
        n += 1
        for e in f.blocks[b]['ev']:
            if pred(e):
                return e
        fallthrough = len(f.blocks[b]['succ']) == 1 and not f.blocks[b].get('term') and not f.blocks[b]['ev']
        for s2 in f.blocks[b]['succ']:
            lb = (f.blocks[s2].get('label') or {}).get('k') if s2 in f.blocks else None
            if s2 in f.blocks and (lb not in ('case', 'default') or fallthrough):
                dq.append(s2)
    return None


def c1_tables(fb, rep):
    clause = 'C17.1'
    pc = {n: fb.const('Piece::' + n) for n in PIECES}
    if None in pc.values():
        rep.broken(clause, 'piece enumerators not found')
        return
    inv = {v: k for k, v in pc.items()}
    rf = fb.find1('TextIO::readFEN')
    tf = fb.find1('TextIO::toFEN')
    if rep.need(clause, rf, 'TextIO::readFEN') and rep.need(clause, tf, 'TextIO::toFEN'):
        sw, arms = switch_arms(rf, lambda c: True)
        letter2piece = {}
        for ch, blk in arms.items():
            e = arm_first(rf, blk, lambda ev: ev.get('k') == 'call' and cname(ev) == 'TextIO::safeSetPiece')
            if e is not None:
                letter2piece[chr(ch)] = (_strip(e['args'][3]) or {}).get('cv')
        sw2, arms2 = switch_arms(tf, lambda c: True)
        piece2letter = {}
        for pv, blk in arms2.items():
            e = arm_first(tf, blk, lambda ev: ev.get('k') == 'call' and cname(ev).endswith('::operator+=') and ev.get('args') and 'cv' in (_strip(ev['args'][0]) or {}))
            if e is not None:
                piece2letter[pv] = chr(_strip(e['args'][0])['cv'])
        rep.floor(clause, 'FEN piece letters (reader)', len(letter2piece), 12)
        rep.floor(clause, 'FEN piece letters (writer)', len(piece2letter), 12)
        bad = [(inv.get(p, p), l, inv.get(letter2piece.get(l), letter2piece.get(l))) for p, l in piece2letter.items() if letter2piece.get(l) != p]
        miss = [n for n, v in pc.items() if v not in piece2letter]
        rep.ob(clause, 'K10 inverse tables', 'FEN: readFEN(toFEN letter of p) == p for all 12 pieces', not bad and not miss, tf.where,
               'mismatches (piece, letter, read back): %s; pieces without a letter: %s' % (bad, miss), tf.sname)
        # castling letters
        bits = {n: fb.const('Position::' + n) for n in ('A1_CASTLE', 'H1_CASTLE', 'A8_CASTLE', 'H8_CASTLE')}
        cread = {}
        cm_ids = {(_strip(e_['args'][0]) or {}).get('id') for _, _, e_ in rf.events() if e_.get('k') == 'call' and cname(e_) == 'Position::setCastleMask' and e_.get('args')}
        for bid in sorted(rf.blocks, reverse=True):
            t = rf.blocks[bid].get('term')
            if t and t.get('c') == 'SwitchStmt' and bid != sw:
                for b2, bb in rf.blocks.items():
                    lb = bb.get('label') or {}
                    if lb.get('k') == 'case' and 'v' in lb and b2 in rf.blocks[bid]['succ']:
                        e = arm_first(rf, b2, lambda ev: ev.get('k') == 'asg' and ev.get('op') == '|=' and isinstance(ev.get('l'), dict) and ev['l'].get('id') in cm_ids)
                        if e is not None and 'cv' in (_strip(e.get('r')) or {}):
                            cread[chr(lb['v'])] = _strip(e['r'])['cv']
        cs = fb.find1('TextIO::castleMaskToString')
        cwrite = {}
        if rep.need(clause, cs, 'TextIO::castleMaskToString'):
            for b, i, e in cs.events():
                if e.get('k') == 'call' and cname(e).endswith('::operator+=') and e.get('args'):
                    a = _strip(e['args'][0])
                    lit = a.get('v') if isinstance(a, dict) and a.get('k') == 'str' else None
                    g = G.guards_of(cs, set(cs.blocks), b)
                    m = [re.search(r'castleMask & (\d+)', x.replace('(1 << Position::', '').replace(')', '')) for x in g]
                    for x in g:
                        for n in walk({}):
                            pass
                    # constant mask in the guard
                    for bid2 in cs.dominators().get(b, set()):
                        t2 = cs.blocks[bid2].get('term')
                        c2 = t2.get('cond') if t2 else None
                        for n in walk(c2) if c2 else []:
                            if n.get('k') == 'bin' and n.get('op') == '&' and 'cv' in (_strip(n.get('r')) or {}) and lit and lit != '-':
                                s0 = cs.blocks[bid2]['succ'][0]
                                if s0 == b or s0 in cs.dominators().get(b, set()):
                                    cwrite[lit] = _strip(n['r'])['cv']
            ok = bool(cread) and {k: v for k, v in cread.items()} == cwrite and len(cwrite) == 4 and \
                cwrite == {'K': 1 << bits['H1_CASTLE'], 'Q': 1 << bits['A1_CASTLE'], 'k': 1 << bits['H8_CASTLE'], 'q': 1 << bits['A8_CASTLE']}
            rep.ob(clause, 'K10 inverse tables', 'FEN castling letters: readFEN and castleMaskToString use the same letter<->bit table', ok, cs.where,
                   'reader %s, writer %s' % (cread, cwrite), cs.sname)
    # pieceToChar / charToPiece
    p2c = fb.find1('TextIO::pieceToChar')
    c2p = fb.find1('TextIO::charToPiece')
    if rep.need(clause, p2c, 'TextIO::pieceToChar') and rep.need(clause, c2p, 'TextIO::charToPiece'):
        ev = Evaluator(fb)
        bad = []
        try:
            for n in PIECES:
                tree = run_switch(ev, p2c, {('v', p2c.d['params'][0]['id']): pc[n], ('v', p2c.d['params'][1]['id']): 1}, want_tree=True)
                letter = _string_value(ev, tree, {('v', p2c.d['params'][1]['id']): 1})
                if not letter:
                    bad.append((n, letter))
                    continue
                back = run_switch(ev, c2p, {('v', c2p.d['params'][0]['id']): 1 if n.startswith('W') else 0, ('v', c2p.d['params'][1]['id']): ord(letter[0])})
                if back != pc[n]:
                    bad.append((n, letter, inv.get(back, back)))
        except (Unknown, KeyError, IndexError) as ex:
            rep.broken(clause, 'constant evaluation of pieceToChar/charToPiece failed: %s' % ex)
            bad = None
        if bad is not None:
            rep.ob(clause, 'K10 inverse tables', 'charToPiece(colour(p), pieceToChar(p)) == p for all 12 pieces', not bad, p2c.where, str(bad), p2c.sname)
    uci_promotion_letters(fb, rep, clause, ('TextIO::moveToUCIString', 'SearchListener::moveToString'))


def uci_promotion_letters(fb, rep, clause, writer_names):
    """K10: the promotion suffix every UCI move printer writes for each promotion piece is the one letter that
    uciStringToMove reads back as that piece; nothing is appended for a move that is not a promotion (shared with C03:
    the bestmove / ponder / pv text is what the GUI plays)."""
    pc = {n: fb.const('Piece::' + n) for n in PIECES}
    if None in pc.values():
        rep.broken(clause, 'piece enumerators not found')
        return
    inv = {v: k for k, v in pc.items()}
    # promotion letters of the UCI move format
    us = fb.find1('TextIO::uciStringToMove')
    writers = [fb.find1(w) for w in writer_names]
    if rep.need(clause, us, 'TextIO::uciStringToMove'):
        sw, arms = switch_arms(us, lambda c: True)
        read = {}
        colour_ids = set()
        prom_ids = set()
        for _, _, e_ in us.events():
            for n_ in walk(e_):
                if n_.get('k') == 'ctor' and n_.get('cls') == 'Move' and len(n_.get('args', [])) >= 3:
                    a_ = _strip(n_['args'][2])
                    if isinstance(a_, dict) and a_.get('k') == 'var':
                        prom_ids.add(a_.get('id'))
        for ch, blk in arms.items():
            e = arm_first(us, blk, lambda ev: ev.get('k') == 'asg' and isinstance(ev.get('l'), dict) and ev['l'].get('id') in prom_ids)
            if e is not None:
                r = _strip(e.get('r'))
                if isinstance(r, dict) and r.get('k') == 'cond':
                    cv_ = _strip(r.get('c'))
                    if isinstance(cv_, dict) and cv_.get('k') == 'var':
                        colour_ids.add(cv_.get('id'))
                    read[chr(ch)] = ((_strip(r['a']) or {}).get('cv'), (_strip(r['b']) or {}).get('cv'), 'white' if isinstance(cv_, dict) and cv_.get('k') == 'var' else show(r.get('c')))
                elif isinstance(r, dict) and 'cv' in r:
                    read[chr(ch)] = (r['cv'], r['cv'], '')
        rep.floor(clause, 'promotion letters read by uciStringToMove', len([k for k in read if k != ' ']), 4)
        for wfn in writers:
            if rep.need(clause, wfn, 'UCI move writer') is None:
                continue
            # a move's promotion field is "none" or one of the eight promotion pieces (kings and pawns never occur there)
            wr = uci_suffixes(fb, wfn, sorted({pc[x] for x in PIECES if x[1:] in ('QUEEN', 'ROOK', 'BISHOP', 'KNIGHT')} | {0}))
            if wr is None:
                rep.broken(clause, 'the promotion suffix of %s is not evaluable' % wfn.sname)
                continue
            bad = []
            need = {pc[x] for x in PIECES if x[1:] in ('QUEEN', 'ROOK', 'BISHOP', 'KNIGHT')}
            for pv, letters in sorted(wr.items()):
                n = inv.get(pv, str(pv))
                if pv not in need:
                    if letters:
                        bad.append((n, letters, 'no suffix expected'))
                    continue
                rd = read.get(letters) if len(letters) == 1 else None
                if rd is None or pv != (rd[0] if n.startswith('W') else rd[1]) or (rd[2] and 'white' not in rd[2]):
                    bad.append((n, letters, rd))
            rep.ob(clause, 'K10 inverse tables', '%s: every promotion letter it writes is read back to the same piece by uciStringToMove' % wfn.sname, not bad and need <= set(wr),
                   wfn.where, 'mismatches %s; suffix written per promotion piece %s' % (bad, {inv.get(k, k): v for k, v in wr.items() if v}), wfn.sname)
        # the colour of a 5-character move is taken from the target rank
        ranks = {}
        rank_is = lambda v: (lambda t: ('v', v) if t.get('k') == 'call' and cname(t) == 'Square::getY' else None)
        for b, i, e in us.events():
            if e.get('k') == 'asg' and isinstance(e.get('l'), dict) and e['l'].get('id') in colour_ids and 'cv' in (e.get('r') or {}):
                # the ranks (0..7 of the target square) for which this colour assignment can be reached
                ranks.setdefault(e['r']['cv'], set()).update(y for y in range(8) if not G.excluded_under(us, b, rank_is(y)))
        ok = ranks.get(1) == {7} and ranks.get(0) == {0}
        rep.ob(clause, 'K4 guard', 'uciStringToMove: a promotion to rank 8 is white\'s, to rank 1 is black\'s', ok, us.where, str(ranks), us.sname)


def uci_suffixes(fb, wfn, codes):
    """{promotion piece code: the characters the UCI move printer appends after the two squares}, by interpreting the
    printer for each code (switch with fall-through, table look-up, if-chain alike); None if not evaluable."""
    out = {}
    for code in codes:
        chars = []
        squares = [0]

        def st_append(ev, t, env, depth, _c=chars):
            a = _strip((t.get('args') or [None])[0])
            if isinstance(a, dict) and a.get('k') == 'str':
                _c.append(a.get('v'))
                return 0
            try:
                v = ev.eval(a, env, depth)
            except Unknown:
                squares[0] += 1       # a square name (string valued call)
                return 0
            if isinstance(v, int):
                _c.append(chr(v & 0xff))
            return 0
        ev = Evaluator(fb, stubs={'Move::promoteTo': lambda e_, t_, env_, d_, _v=code: _v, 'Move::isEmpty': lambda e_, t_, env_, d_: 0,
                                  'std::__cxx11::basic_string::operator+=': st_append, 'std::basic_string::operator+=': st_append})
        ev.lenient_return = True
        env = {}
        # static character tables declared inside the printer
        for _, _, e in wfn.events():
            if e.get('k') == 'decl':
                for v in e.get('vars', []):
                    init = _strip(v.get('init'))
                    if isinstance(init, dict) and init.get('k') == 'str':
                        env[('v', v['id'])] = init.get('v')
        try:
            ev.run(wfn, env)
        except Unknown:
            return None
        out[code] = ''.join(chars)
    return out


def _string_value(ev, tree, env):
    t = _strip(tree)
    for _ in range(4):
        if isinstance(t, dict) and t.get('k') == 'ctor' and t.get('args'):
            t = _strip(t['args'][0])
        else:
            break
    if isinstance(t, dict) and t.get('k') == 'cond':
        c = ev.eval(t['c'], env)
        return _string_value(ev, t['a'] if c else t['b'], env)
    if isinstance(t, dict) and t.get('k') == 'str':
        return t.get('v')
    return None


# ----------------------------------------------------------------------------- .2

def c2_getsquare(fb, rep):
    clause = 'C17.2'
    gs = fb.find1('TextIO::getSquare')
    if rep.need(clause, gs, 'TextIO::getSquare') is None:
        return
    idx = sorted({(_strip((n.get('args') or [{}])[0]) or {}).get('cv') for _, _, e in gs.events() for n in walk(e)
                  if n.get('k') == 'call' and cname(n).endswith('::operator[]')} - {None})
    rep.ob(clause, 'K4 precondition', 'getSquare reads exactly characters 0 and 1 of its argument', idx == [0, 1], gs.where, str(idx), gs.sname)
    sites = []
    for f in fb.funcs.values():
        if f.has_cfg and R.in_engine(f):
            for b, i, e in f.events():
                if e.get('k') == 'call' and cname(e) == 'TextIO::getSquare':
                    sites.append((f, b, i, e))
    rep.floor(clause, 'getSquare call sites', len(sites), 3)
    for f, b, i, e in sites:
        a = _strip(e['args'][0])
        sub = next((n for n in walk(a) if n.get('k') == 'call' and cname(n).endswith('::substr')), None)
        ok = False
        why = 'argument is not a substr(a, 2) of a length-checked string'
        if sub is not None and len(sub.get('args', [])) >= 2 and (_strip(sub['args'][1]) or {}).get('cv') == 2:
            base = show(sub.get('recv'))
            start = _strip(sub['args'][0])
            g = G.guards_of(f, set(f.blocks), b)
            lb = _length_lower_bound(base, g)
            if isinstance(start, dict) and 'cv' in start:
                ok = lb is not None and isinstance(lb, int) and lb >= start['cv'] + 2
                why = 'guards %s give %s.length() >= %s, need %d' % (g, base, lb, start['cv'] + 2)
            else:
                sv = show(start)
                ok = lb == ('var+2', sv)
                why = 'guards %s; need %s + 2 <= %s.length()' % (g, sv, base)
        rep.ob(clause, 'K4 precondition', '%s: getSquare gets a 2-character string (site #%d)' % (f.sname, sites.index((f, b, i, e)) + 1), ok, R.site(f, e), why, f.sname)


def _length_lower_bound(base, guards):
    """From rendered guards derive a lower bound of <base>.length(): an int, or ('var+2', v) meaning v + 2."""
    best = None
    for g in guards:
        neg = g.startswith('!')
        x = g.lstrip('!')
        m = re.match(r'^\(\(?%s\.length\(\)\)? < (\d+)\)$' % re.escape(base), x)
        if m and neg:
            best = max(best or 0, int(m.group(1)))
        m = re.match(r'^\(\(?%s\.length\(\)\)? >= (\d+)\)$' % re.escape(base), x)
        if m and not neg:
            best = max(best or 0, int(m.group(1)))
        m = re.match(r'^\((\w+) >= \(%s\.length\(\) - 1\)\)$' % re.escape(base), x)
        if m and neg:
            return ('var+2', m.group(1))
    return best


# ----------------------------------------------------------------------------- .3

def c3_external_ints(fb, rep):
    clause = 'C17.3'
    sites = []
    for f in fb.funcs.values():
        if f.has_cfg and R.in_engine(f):
            for b, i, e in f.events():
                if e.get('k') == 'call' and cname(e) == 'Position::setHalfMoveClock':
                    sites.append((f, b, i, e))
    rep.floor(clause, 'engine-side writers of the half-move clock', len(sites), 3)
    for k, (f, b, i, e) in enumerate(sorted(sites, key=lambda s: (s[0].key, s[3].get('ln') or 0))):
        a = _strip(e['args'][0])
        ok = False
        why = ''
        if isinstance(a, dict) and 'cv' in a:
            ok = a['cv'] >= 0
            why = 'constant %s' % a['cv']
        elif isinstance(a, dict) and a.get('k') == 'call' and cname(a) == 'Position::getHalfMoveClock':
            ok, why = True, 'read back from a position'
        elif isinstance(a, dict) and a.get('k') == 'var':
            # a local that was read from a position, or an external integer guarded by >= 0
            defs = [v.get('init') for _, _, ev in f.events() if ev.get('k') == 'decl' for v in ev.get('vars', []) if v.get('id') == a.get('id') and v.get('init') is not None]
            if defs and all(isinstance(_strip(d), dict) and _strip(d).get('k') == 'call' and cname(_strip(d)) == 'Position::getHalfMoveClock' for d in defs):
                ok, why = True, 'local initialised from getHalfMoveClock()'
            else:
                g = G.guards_of(f, set(f.blocks), b)
                val = lambda v: (lambda t: ('v', v) if t.get('k') == 'var' and t.get('id') == a.get('id') else None)
                ok = G.excluded_under(f, b, val(-1)) and G.excluded_under(f, b, val(-200000)) and not any(G.excluded_under(f, b, val(v_)) for v_ in (0, 1, 50, 99, 100, 150))
                # ... and far from the top of its type: every reversible move increments the clock, a stored INT_MAX wraps to
                # INT_MIN with the next move and then indexes the key table from below
                top = G.excluded_under(f, b, val(2147483647)) and G.excluded_under(f, b, val(2147483647 - 5000))
                if ok and not top:
                    ok = False
                    why_top = '; not bounded above (a clock of INT_MAX is stored and overflows with the next reversible move)'
                else:
                    why_top = ''
                why = 'external value; guards %s%s' % (g, why_top)
        rep.ob(clause, 'K12 range', '%s: half-move clock writer #%d passes a value known to be >= 0' % (f.sname, k + 1), ok, R.site(f, e), why, f.sname)
    # other writers of the field
    wr = set()
    for f in fb.funcs.values():
        if f.has_cfg and f.d.get('cls') == 'Position':
            for b, i, e in f.events():
                if (e.get('k') == 'asg' and ap(e.get('l')) == 'this.halfMoveClock') or (e.get('k') == 'incdec' and ap(e.get('e')) == 'this.halfMoveClock'):
                    wr.add(f.sname.split('::')[-1])
    rep.ob(clause, 'K5 who-may-write', 'the half-move clock is written only by makeMove/unMakeMove (reset, +1, restore), the setter, the constructor and deSerialize (8-bit field)',
           wr <= {'makeMove', 'unMakeMove', 'setHalfMoveClock', 'deSerialize', 'Position'}, '', str(sorted(wr)), '')
    # readers: min(clock, 100) against the extent of moveCntKeys
    g = fb.globals.get('Position::moveCntKeys')
    ext = None
    if g:
        m = re.search(r'\[(\d+)\]', g.get('ct') or g.get('t') or '')
        ext = int(m.group(1)) if m else None
    for nm in ('Position::historyHash', 'Position::bookHash'):
        f = fb.find1(nm)
        if rep.need(clause, f, nm) is None:
            continue
        bad = []
        n = 0
        for b, i, e in f.events():
            for nd in walk(e):
                if nd.get('k') == 'idx' and 'moveCntKeys' in show(nd.get('b')):
                    n += 1
                    ix = _strip(nd.get('i'))
                    if isinstance(ix, dict) and ix.get('k') == 'call' and cname(ix) == 'std::min':
                        cap = max((_strip(a) or {}).get('cv', -1) for a in ix['args'])
                        if ext is None or cap + 1 > ext:
                            bad.append(show(ix))
                    elif isinstance(ix, dict) and ix.get('k') == 'bin' and ix.get('op') == '/':
                        # clock / 10 under the guard clock < 80
                        gs = G.guards_of(f, set(f.blocks), b)
                        # the bucket index clock / d stays inside the table for every clock value that can reach the access
                        dv_ = (_strip(ix.get('r')) or {}).get('cv')
                        clk = lambda v: (lambda t: ('v', v) if t.get('k') == 'mem' and (ap(t) or '').split('.')[-1] == 'halfMoveClock' else None)
                        reach = [v for v in range(0, 400) if not G.excluded_under(f, b, clk(v))]
                        if not dv_ or ext is None or not reach or len(reach) == 400 or max(reach) // dv_ >= ext:
                            bad.append(show(ix))
                    else:
                        bad.append(show(ix))
        rep.ob(clause, 'K12 range', '%s indexes moveCntKeys only with min(clock, 100) or a bounded bucket (extent %s)' % (nm, ext), not bad and n > 0, f.where, str(bad), f.sname)


# ----------------------------------------------------------------------------- .4

def c4_exceptions(fb, rep):
    clause = 'C17.4'
    cg, _ = common.graphs(fb)
    xf = X.ExceptionFlow(fb, cg)
    # vacuity guard of the exception model: the number parsers of the text formats call the throwing library conversions
    # (std::stoi, std::stod) - if the model does not see them, a narrowed handler around them goes unnoticed
    xf.escaping(fb.find1('TextIO::readFEN')) if fb.find1('TextIO::readFEN') else None
    conv = {n for _, n in xf.std_sites if n.split('::')[-1] in ('stoi', 'stol', 'stod', 'stoul', 'stoll', 'stoull', 'stof')}
    rep.floor(clause, 'throwing number conversions seen by the exception model', len(conv), 2)
    for nm in ('TextIO::readFEN', 'TextIO::stringToMove', 'TextIO::uciStringToMove', 'TextIO::moveToString', 'TextIO::toFEN'):
        fs = fb.find(nm)
        if rep.need(clause, fs, nm) is None:
            continue
        for f in fs:
            esc = xf.escaping(f)
            bad = sorted(t for t in esc if not xf.is_a(t, 'ChessError'))
            rep.ob(clause, 'K14 exception escape', '%s lets only ChessError-family exceptions escape' % (f.sname if len(fs) == 1 else f.key.split('(')[0] + '(' + str(len(f.d.get('params', []))) + ')'),
                   not bad, f.where, 'escaping: %s' % sorted(esc), f.sname)
    hc = fb.find1('UCIProtocol::handleCommand')
    if rep.need(clause, hc, 'UCIProtocol::handleCommand'):
        esc = xf.escaping(hc)
        rep.ob(clause, 'K14 exception escape', 'UCIProtocol::handleCommand lets nothing escape for any command line', not esc, hc.where, 'escaping: %s' % sorted(esc), hc.sname)
        caught = {h['t'] for t in hc.d.get('tries', []) for h in t['handlers']}
        rep.ob(clause, 'K14 exception escape', 'the UCI command handler catches the parser\'s error type', any('ChessParseError' in c for c in caught), hc.where, str(sorted(caught)), hc.sname)
    rf = fb.find1('TextIO::readFEN')
    if rf is not None:
        thr = sorted({X.norm_type(e.get('t', '')) for _, _, e in rf.events() if e.get('k') == 'throw'})
        rep.ob(clause, 'K14 exception escape', 'readFEN rejects malformed input with ChessParseError only', thr == ['ChessParseError'], rf.where, str(thr), rf.sname)


# ----------------------------------------------------------------------------- .5

COLOUR_ATOMS = ('isWhiteMove', 'WPAWN', 'BPAWN', 'wtm', 'white')


def c5_pawn_offsets(fb, rep):
    clause = 'C17.5'
    n = 0
    for fn in sorted(fb.funcs.values(), key=lambda x: x.key):
        if not fn.has_cfg or not R.in_engine(fn) or '/tb/' in fn.file or fn.d.get('targs'):
            continue
        sites = []
        for b, i, e in fn.events():
            if e.get('k') == 'call' and cname(e) in ('Square::operator-', 'Square::operator+', 'operator-', 'operator+') and e.get('args') and 'Square' in (e.get('t') or ''):
                a = _strip(e['args'][-1])
                v = a.get('cv') if isinstance(a, dict) else None
                if v in (8, 16):
                    sign = 1 if cname(e).endswith('+') else -1
                    sites.append((b, i, e, sign * v))
                elif isinstance(a, dict) and a.get('k') == 'cond':
                    x, y = (_strip(a.get('a')) or {}).get('cv'), (_strip(a.get('b')) or {}).get('cv')
                    if x is not None and y is not None and abs(x) in (8, 16) and x == -y and any(t in show(a.get('c')) for t in COLOUR_ATOMS):
                        n += 1
                        rep.ob(clause, 'K10 colour coherence', '%s: pawn-direction offset chosen by colour in one expression (site %d)' % (fn.sname, n), True, R.site(fn, e), show(a), fn.sname)
        if not sites:
            continue
        seen_lines = set()
        forms = []
        for b, i, e, off in sites:
            if (e.get('ln'), off) in seen_lines:
                continue
            seen_lines.add((e.get('ln'), off))
            g = G.guards_of(fn, set(fn.blocks), b)
            col = [x for x in g if any(t in x for t in COLOUR_ATOMS)]
            base = show(e.get('recv') if e.get('recv') is not None else e['args'][0], 80)
            forms.append((base, off, bool(col), e))
        for base, off, coloured, e in forms:
            n += 1
            mirrored = any(b2 == base and o2 == -off for b2, o2, c2, e2 in forms)
            rep.ob(clause, 'K10 colour coherence', '%s: `%s %s %d` is decided by the mover\'s colour and has its mirrored sibling' % (fn.sname, base, '+' if off > 0 else '-', abs(off)),
                   coloured and mirrored, R.site(fn, e), 'colour guard: %s, mirrored sibling in the function: %s' % (coloured, mirrored), fn.sname)
    rep.floor(clause, 'pawn-direction square offsets', n, 16)


# --------------------------------------------------------------------------- .6 scanner look-ahead

def c6_scanner_lookahead(fb, rep):
    """K3 typestate of the character last read by the PGN scanner: every character obtained from
    getTokenChar() is, on every path, either made part of the token (appended), recognised as a
    delimiter / single-character token (compared equal to a character constant), skipped as white
    space, or handed back with returnTokenChar() - before the next character is read and before
    the token is returned.  A character that merely *ends* a token by not belonging to it (failed
    class test) and is neither handed back nor used is lost, and with it the structure of the game."""
    from ..flow import Flow
    clause = 'C17.6'
    f = fb.find1('PgnScanner::nextToken')
    if rep.need(clause, f, 'PgnScanner::nextToken') is None:
        return
    READ, BACK = 'PgnScanner::getTokenChar', 'PgnScanner::returnTokenChar'
    reads = [(b, i, e) for b, i, e in f.events() if e.get('k') == 'call' and cname(e) == READ]
    backs = [(b, i, e) for b, i, e in f.events() if e.get('k') == 'call' and cname(e) == BACK]
    rep.floor(clause, 'character reads in the PGN scanner', len(reads), 6)
    rep.floor(clause, 'push-back sites in the PGN scanner', len(backs), 2)
    # the variable(s) the reads are stored in
    cvars = set()
    for b, i, e in f.events():
        if e.get('k') == 'decl':
            for v in e.get('vars', []):
                if any(n.get('k') == 'call' and cname(n) == READ for n in walk(v.get('init') or {})):
                    cvars.add(v['id'])
        elif e.get('k') == 'asg' and isinstance(e.get('l'), dict) and e['l'].get('k') == 'var' and any(n.get('k') == 'call' and cname(n) == READ for n in walk(e.get('r') or {})):
            cvars.add(e['l'].get('id'))
    viol = {}

    def is_c(t):
        t = _strip(t)
        if isinstance(t, dict) and t.get('k') == 'asg':
            t = _strip(t.get('l'))
        return isinstance(t, dict) and t.get('k') == 'var' and t.get('id') in cvars

    def mentions_c(t):
        return any(n.get('k') == 'var' and n.get('id') in cvars for n in walk(t))

    def transfer(e, st, pos):
        k = e.get('k')
        reads_now = (k == 'decl' and any(v['id'] in cvars and v.get('init') is not None and any(n.get('k') == 'call' and cname(n) == READ for n in walk(v['init'])) for v in e.get('vars', []))) or \
                    (k == 'asg' and is_c(e.get('l')) and any(n.get('k') == 'call' and cname(n) == READ for n in walk(e.get('r') or {})))
        if reads_now:
            if st == 'FRESH':
                viol[pos] = ('the previous character is overwritten by the next read without having been used or handed back', e)
            return ['FRESH']
        if k == 'call':
            n = cname(e)
            if n == BACK and any(mentions_c(a) for a in e.get('args', [])):
                return ['DONE']
            if n.split('::')[-1] in ('operator+=', 'push_back', 'append') and any(mentions_c(a) for a in e.get('args', [])):
                return ['DONE']
        if k == 'asg' and e.get('op') == '+=' and mentions_c(e.get('r')):
            return ['DONE']
        if k == 'asg' and (show(e.get('l')) or '').endswith('.type') and 'END' in show(e.get('r')):
            return ['DONE']         # end of input: nothing to hand back
        if k == 'ret' and st == 'FRESH':
            viol[pos] = ('the token is returned while the last character read was neither used nor handed back', e)
        return [st]

    def refine(atom, tv, st):
        a = _strip(atom)
        if isinstance(a, dict) and a.get('k') == 'bin' and a.get('op') in ('==', '!='):
            l, r = a.get('l'), a.get('r')
            for x, y in ((l, r), (r, l)):
                if is_c(x) and isinstance(_strip(y), dict) and 'cv' in _strip(y):
                    if (a['op'] == '==') == bool(tv):
                        return ['DONE'] if st == 'FRESH' else [st]
        if isinstance(a, dict) and a.get('k') == 'call' and cname(a).split('::')[-1] == 'isspace' and tv and any(mentions_c(x) for x in a.get('args', [])):
            return ['DONE'] if st == 'FRESH' else [st]
        return [st]
    fl = Flow(f, transfer, refine).run({'NONE'})
    if fl.overflow:
        rep.broken(clause, 'configuration overflow')
        return
    first = sorted(viol.items())[0][1] if viol else None
    rep.ob(clause, 'K3 typestate', 'PgnScanner::nextToken: every character read is used, recognised as a delimiter, skipped as white space or handed back before the next read / the return',
           not viol, R.site(f, first[1]) if first else f.where,
           '; '.join('line %s: %s' % (e.get('ln'), w) for _, (w, e) in sorted(viol.items())) if viol else '%d reads, %d push-back sites' % (len(reads), len(backs)), f.sname)
    # the push-back buffer really is consulted first by the reader
    g = fb.find1(READ)
    h = fb.find1(BACK)
    if rep.need(clause, g, READ) and rep.need(clause, h, BACK):
        from ..effects import event_writes
        wr = set()
        for _, _, e in h.events():
            may, _m = event_writes(e)
            wr |= set(may)
        rd = R.this_fields_read(g)
        shared = {w.replace('[]', '') for w in wr} & {p_[5:] for p_ in rd}
        rep.ob(clause, 'K10 sibling agreement', 'returnTokenChar stores into state that getTokenChar reads first', bool(shared), h.where,
               'written %s, read %s' % (sorted(wr), sorted(rd)), h.sname)


# --------------------------------------------------------------------------- .7 end-of-file test

def c7_eof_width(fb, rep):
    """K7 type obligation: the value of istream::get() is compared with EOF at its full width.  Narrowed to
    `char` first, the data byte 0xFF (a letter in Latin-1, the PGN character set) equals EOF on platforms with a
    signed char, and the scanner silently stops in the middle of a game."""
    clause = 'C17.7'
    n = 0
    for f in sorted(fb.funcs.values(), key=lambda x: x.key):
        if not f.has_cfg or not R.in_prog(f):
            continue
        for b, i, e in f.events():
            tgt = None
            src = None
            if e.get('k') == 'decl':
                for v in e.get('vars', []):
                    if any(n_.get('k') == 'call' and cname(n_) == 'std::basic_istream::get' and not n_.get('args') for n_ in walk(v.get('init') or {})):
                        tgt, src = v, v.get('init')
            elif e.get('k') == 'asg' and isinstance(e.get('l'), dict) and e['l'].get('k') == 'var' and \
                    any(n_.get('k') == 'call' and cname(n_) == 'std::basic_istream::get' and not n_.get('args') for n_ in walk(e.get('r') or {})):
                tgt, src = e['l'], e.get('r')
            if tgt is None:
                continue
            vid = tgt.get('id')
            # is this variable ever compared with EOF (-1)?
            cmps = []
            for bid, blk in f.blocks.items():
                for tree in [ev for ev in blk['ev']] + ([blk['term']['cond']] if (blk.get('term') or {}).get('cond') is not None else []):
                    for n_ in walk(tree):
                        if n_.get('k') == 'bin' and n_.get('op') in ('==', '!='):
                            sides = [_strip(n_.get('l')), _strip(n_.get('r'))]
                            if any(isinstance(x, dict) and x.get('k') == 'var' and x.get('id') == vid for x in sides) and any(isinstance(x, dict) and x.get('cv') == -1 for x in sides):
                                cmps.append(n_)
            if not cmps:
                continue
            n += 1
            ty = (tgt.get('ct') or tgt.get('t') or '').replace('const ', '')
            # the declared type of an assigned variable
            if e.get('k') == 'asg':
                ty = next(((v.get('ct') or v.get('t') or '') for _, _, ev in f.events() if ev.get('k') == 'decl' for v in ev.get('vars', []) if v['id'] == vid), ty).replace('const ', '')
            rep.ob(clause, 'K7 type', '%s: the value of istream::get() is held in an int (not narrowed to char) where it is compared with EOF' % f.sname,
                   ty in ('int', 'long', 'std::basic_istream<char>::int_type', 'int_type', 'std::char_traits<char>::int_type'), R.site(f, e), 'variable type: %s' % ty, f.sname)
    rep.floor(clause, 'end-of-file tests on istream::get()', n, 1)


# ----------------------------------------------------------------------------- .8

def c8_end_token_leaves_loops(fb, rep):
    """K2 termination on exhausted input.  After the end of the input PgnScanner::nextToken() returns the END token on every
    call.  So in every loop of the PGN parser that reads tokens, the END token must lead out of the loop: the arm (or
    branch) that recognises END must not have a path back to the loop header inside the loop body.  A `break` that only
    leaves the switch re-enters the loop, which then spins for ever on malformed input (an unclosed parenthesis)."""
    clause = 'C17.8'
    end = fb.const('PgnToken::END')
    if rep.need(clause, end, 'PgnToken::END') is None:
        return
    n = 0
    for f in sorted((f for f in fb.funcs.values() if f.has_cfg and (f.file or '').endswith('gametree.cpp')), key=lambda x: x.key):
        loops = f.natural_loops()
        for hdr, body in sorted(loops.items()):
            reads = any(e.get('k') == 'call' and cname(e).split('::')[-1] in ('nextToken', 'nextTokenDropComments') for b in body for e in f.blocks[b]['ev']) or \
                any(any(n_.get('k') == 'call' and cname(n_).split('::')[-1] in ('nextToken', 'nextTokenDropComments') for n_ in walk((f.blocks[b].get('term') or {}).get('cond') or {})) for b in body)
            if not reads:
                continue
            # END recognisers inside the loop: switch arms labelled END, or branches on `type == END`
            starts = []
            for b in body:
                t = f.blocks[b].get('term') or {}
                if t.get('c') == 'SwitchStmt':
                    for s_ in f.blocks[b]['succ']:
                        lb = f.blocks[s_].get('label') or {}
                        if lb.get('k') == 'case' and lb.get('v') == end:
                            starts.append((s_, 'case END', b))
                c = eff_cond(t) if t.get('cond') is not None and t.get('c') != 'SwitchStmt' else None
                ce, pol = strip_not(c) if c is not None else (None, True)
                if isinstance(ce, dict) and ce.get('k') == 'bin' and ce.get('op') in ('==', '!=') and any((_strip(x) or {}).get('cv') == end for x in (ce.get('l'), ce.get('r'))) and \
                        any('type' in show(x, 40) for x in (ce.get('l'), ce.get('r'))) and len(f.blocks[b]['succ']) == 2:
                    is_eq = (ce['op'] == '==') == pol
                    starts.append((f.blocks[b]['succ'][0 if is_eq else 1], 'type == END', b))
            if not starts:
                continue
            # only the innermost loop that contains the recogniser is judged
            inner = {}
            for sb, how, owner in starts:
                smallest = min((len(bd), h) for h, bd in loops.items() if owner in bd)[1]
                if smallest == hdr:
                    inner[sb] = how
            for sb, how in sorted(inner.items()):
                n += 1
                # can the header be reached again from the END arm without leaving the loop body?
                seen = {sb}
                st = [sb]
                back = sb == hdr
                while st and not back:
                    x = st.pop()
                    for s_ in f.blocks[x]['succ']:
                        if s_ == hdr:
                            back = True
                            break
                        if s_ in body and s_ not in seen:
                            seen.add(s_)
                            st.append(s_)
                ln = (f.blocks[sb].get('label') or {}).get('ln') or (f.blocks[hdr].get('term') or {}).get('ln')
                rep.ob(clause, 'K2 loop exit', '%s: in token loop #%d the END token leaves the loop' % (f.sname, n), not back, '%s:%s' % (f.file, ln),
                       '%s at block %s; loop header %s' % (how, sb, hdr), f.sname)
    rep.floor(clause, 'END recognisers inside token-reading loops of the PGN parser', n, 2)


# ----------------------------------------------------------------------------- .9

def c9_castle_text(fb, rep):
    """K12 the castling text of the short / long move form.  stringToMove() recognises a move by printing every legal move and
    comparing, so "O-O" / "O-O-O" may be printed only for the king's two-square move from its home square towards that
    side: printed for another piece's move it reads back as no move (or as the castling move, when that is legal too).
    (Castling printed in another notation would still round-trip through the same printer and is not judged.)  The guards of every statement that appends a
    castling text are evaluated for all 64 x 64 x 12 (from, to, moving piece) combinations."""
    clause = 'C17.9'
    cands = [f for f in fb.funcs.values() if f.has_cfg and f.sname.split('::')[-1] == 'moveToString' and len(f.d.get('params', [])) == 4 and len(f.blocks) > 20]
    f = cands[0] if len(cands) == 1 else None
    if rep.need(clause, f, 'the short/long form printer moveToString(pos, move, longForm, moves)') is None:
        return
    ctor = next((g for g in fb.funcs.values() if g.sname == 'Square::Square' and len(g.d.get('params', [])) == 2 and g.has_cfg), None)
    sq_init = next((e.get('init') for _, _, e in ctor.events() if e.get('k') == 'minit'), None) if ctor is not None else None
    if rep.need(clause, sq_init, 'Square::Square(int, int) member initialiser') is None:
        return
    WK, BK = fb.const('Piece::WKING'), fb.const('Piece::BKING')
    npt = fb.const('Piece::nPieceTypes')
    home = {WK: fb.const('E1'), BK: fb.const('E8')}
    if rep.need(clause, None if None in (WK, BK, npt, home[WK], home[BK]) else 1, 'piece / square constants') is None:
        return
    p_pos, p_move = f.d['params'][0]['id'], f.d['params'][1]['id']
    state = {}

    def recv_is(t, pid):
        r = t.get('recv')
        while isinstance(r, dict) and r.get('k') in ('cast', 'paren'):
            r = r.get('e')
        return isinstance(r, dict) and r.get('k') == 'var' and r.get('id') == pid

    def stub_from(ev, t, env, depth):
        if not recv_is(t, p_move):
            raise Unknown('from() of another move')
        return state['from']

    def stub_to(ev, t, env, depth):
        if not recv_is(t, p_move):
            raise Unknown('to() of another move')
        return state['to']

    def stub_piece(ev, t, env, depth):
        if not recv_is(t, p_pos):
            raise Unknown('getPiece of another position')
        sq = ev.eval(t['args'][0], env, depth + 1)
        if sq == state['from']:
            return state['piece']
        raise Unknown('piece on another square')

    def ctor_hook(cls, args):
        if cls == 'Square' and len(args) == 2:
            pe = Evaluator(fb)
            return pe.eval(sq_init, {('v', ctor.d['params'][0]['id']): args[0], ('v', ctor.d['params'][1]['id']): args[1]})
        return None
    ev = Evaluator(fb, stubs={'Move::from': stub_from, 'Move::to': stub_to, 'Position::getPiece': stub_piece}, ctor_hook=ctor_hook)
    sites = []
    for b, i, e in f.events():
        txt = [x.get('v') for x in walk(e) if isinstance(x, dict) and x.get('k') == 'str' and str(x.get('v', '')).startswith('O-O')]
        if txt and e.get('k') in ('call', 'asg'):
            sites.append((b, i, e, txt[0], G.guard_trees(f, set(f.blocks), b)))
    if rep.floor(clause, 'statements that append a castling text', len(sites), 2) is False or not sites:
        return
    decls = [v for _, _, e in f.events() if e.get('k') == 'decl' for v in e.get('vars', []) if v.get('init') is not None]
    used = {n.get('id') for _, _, _, _, gs in sites for c, _ in gs for n in walk(c) if isinstance(n, dict) and n.get('k') == 'var' and n.get('vk') == 'local'}
    # locals the guards mention, and what their initialisers mention
    for _ in range(3):
        for v in decls:
            if v['id'] in used:
                used |= {n.get('id') for n in walk(v['init']) if isinstance(n, dict) and n.get('k') == 'var' and n.get('vk') == 'local'}
    decls = [v for v in decls if v['id'] in used]

    def tri(c, env):
        try:
            return bool(ev.eval(c, env))
        except Unknown:
            return None
    bad, n_states, n_emit, undecided, n_plain = [], 0, 0, 0, 0
    for frm in range(64):
        for pc in range(1, npt):
            for to in range(64):
                state.update({'from': frm, 'to': to, 'piece': pc})
                env = {}
                for _ in range(2):
                    for v in decls:
                        try:
                            env[('v', v['id'])] = ev.eval(v['init'], env)
                        except Unknown:
                            pass
                out = set()
                for b, i, e, txt, gs in sites:
                    vals = [tri(c, env) == side if tri(c, env) is not None else None for c, side in gs]
                    if any(v is False for v in vals):
                        continue
                    if any(v is None for v in vals):
                        undecided += 1
                        continue
                    out.add(txt)
                n_states += 1
                want = set()
                if pc in home and frm == home[pc] and to == frm + 2:
                    want = {'O-O'}
                elif pc in home and frm == home[pc] and to == frm - 2:
                    want = {'O-O-O'}
                n_emit += 1 if out else 0
                if not out:
                    # castling printed in some other notation still round-trips through the same printer: not judged
                    n_plain += 1 if want else 0
                    continue
                if out != want and len(bad) < 5:
                    bad.append('from %d to %d piece %d: prints %s, castling text wanted %s' % (frm, to, pc, sorted(out) or 'none', sorted(want) or 'none'))
                elif out != want:
                    bad.append('')
    if undecided:
        rep.broken(clause, 'castling-text guards not evaluable in %d (state, site) pairs' % undecided)
        return
    rep.floor(clause, 'states in which a castling text is printed', n_emit, 4 if not bad else 0)
    rep.ob(clause, 'K12 finite evaluation', 'moveToString: "O-O" / "O-O-O" is printed only for the king\'s two-square move from its home square to that side (all from x to x moving piece)',
           not bad, R.site(f, sites[0][2]), '%d states, %d print a castling text%s' % (n_states, n_emit, ('; ' + '; '.join(x for x in bad[:3] if x) + ' (%d in all)' % len(bad)) if bad else ''), f.sname)


# ----------------------------------------------------------------------------- .10

def c10_men_per_side_bounded(fb, rep):
    """K12 range of a value that sizes fixed storage.  MoveList holds 256 moves without a bounds check (the generators append
    unconditionally: C01); that is enough for positions with at most 16 men per side and not for arbitrary placements
    (46 queens give 263 moves).  Positions enter from text only through TextIO::readFEN, so readFEN must reject a side with
    more than 16 men on every path to its normal return: a throw guarded by `count > c` with c <= 16 for each colour,
    where count is the population of the colour's piece set or a local counted up in a loop."""
    clause = 'C17.10'
    f = fb.find1('TextIO::readFEN')
    if rep.need(clause, f, 'TextIO::readFEN') is None:
        return
    cap = fb.const('MoveList::MAX_MOVES')
    if rep.need(clause, cap, 'MoveList::MAX_MOVES') is None:
        return
    counters = set()
    for b, i, e in f.events():
        if e.get('k') == 'incdec' and e.get('op') == '++':
            v = _strip(e.get('e'))
            if isinstance(v, dict) and v.get('k') == 'var' and v.get('vk') == 'local':
                counters.add(v['id'])
    # facts that hold at every normal return: the conditions of the dominating tests with the side taken
    rets = [b for b, blk in f.blocks.items() if b not in f.dead and any(e.get('k') == 'ret' for e in blk['ev'])]
    if rep.need(clause, rets, 'a normal return of readFEN') is None:
        return
    per_ret = []
    for rb in rets:
        found = {}      # colour set / counter -> upper bound established on the way to this return
        for c, side in G.guard_trees(f, set(f.blocks), rb):
            c = _strip(c)
            if not (isinstance(c, dict) and c.get('k') == 'bin' and c.get('op') in ('>', '>=', '<', '<=')):
                continue
            l, r = _strip(c.get('l')), _strip(c.get('r'))
            op = c['op']
            if isinstance(l, dict) and 'cv' in l and not (isinstance(r, dict) and 'cv' in r):
                l, r = r, l
                op = {'>': '<', '<': '>', '>=': '<=', '<=': '>='}[op]
            if not (isinstance(r, dict) and 'cv' in r and isinstance(l, dict)):
                continue
            if not side:
                op = {'>': '<=', '<=': '>', '>=': '<', '<': '>='}[op]
            if op not in ('<', '<='):
                continue
            bound = r['cv'] if op == '<=' else r['cv'] - 1        # count <= bound holds at the return
            key = None
            if l.get('k') == 'call' and cname(l).split('::')[-1] == 'bitCount':
                inner = [cname(n).split('::')[-1] for n in walk(l) if isinstance(n, dict) and n.get('k') == 'call' and cname(n).split('::')[-1] in ('whiteBB', 'blackBB')]
                if len(inner) == 1:
                    key = inner[0]
            elif l.get('k') == 'var' and l.get('id') in counters:
                key = 'counter#%d' % (sorted(counters).index(l['id']) + 1)
            if key is not None and (key not in found or bound < found[key]):
                found[key] = bound
        per_ret.append(found)
    found = {}
    for k in set().union(*[set(x) for x in per_ret]):
        if all(k in x for x in per_ret):
            found[k] = max(x[k] for x in per_ret)
    sets = [k for k in found if k in ('whiteBB', 'blackBB')]
    locs = [k for k in found if k.startswith('counter#')]
    n_sides = len(sets) + min(len(locs), 2 - len(sets))
    ok = n_sides >= 2 and all(v <= 16 for v in found.values())
    rep.ob(clause, 'K12 range', 'readFEN rejects a side with more than 16 men before it returns a position (MoveList holds %d moves unchecked)' % cap, ok, f.where,
           'upper bounds that hold at every normal return: %s' % found, f.sname)


# ----------------------------------------------------------------------------- .11

def c11_disambiguation_scan(fb, rep):
    """K12 the scan that decides the file / rank disambiguation of the short form.  Two legal moves of like pieces to one square
    get different texts only if the printer sees both when it counts the candidates: the loop over the legal move list that
    it is given must visit every index 0 .. size-1 (it may stop early only at an empty sentinel move).  The loop's own
    init / bound / step and the index expression are evaluated for list sizes 0..8."""
    clause = 'C17.11'
    cands = [f for f in fb.funcs.values() if f.has_cfg and f.sname.split('::')[-1] == 'moveToString' and len(f.d.get('params', [])) == 4 and len(f.blocks) > 20]
    f = cands[0] if len(cands) == 1 else None
    if rep.need(clause, f, 'the short/long form printer moveToString(pos, move, longForm, moves)') is None:
        return
    lists = [p_['id'] for p_ in f.d['params'] if 'MoveList' in (p_.get('t') or '')]
    if rep.need(clause, lists, 'the legal-move list parameter') is None:
        return
    lid = lists[0]
    decls = {v['id']: v for _, _, e in f.events() if e.get('k') == 'decl' for v in e.get('vars', [])}
    loops = f.natural_loops()

    def ev(t, env, depth=0):
        t = _strip(t)
        if not isinstance(t, dict) or depth > 8:
            return None
        if 'cv' in t:
            return t['cv']
        if t.get('k') == 'mem' and (t.get('f') or '').endswith('::size') and (_strip(t.get('b')) or {}).get('id') == lid:
            return env['n']
        if t.get('k') == 'var':
            if t.get('id') in env:
                return env[t['id']]
            d = decls.get(t.get('id'))
            return ev(d['init'], env, depth + 1) if d is not None and d.get('init') is not None and t.get('id') not in env.get('counters', ()) else None
        if t.get('k') == 'bin':
            a, b = ev(t.get('l'), env, depth + 1), ev(t.get('r'), env, depth + 1)
            if a is None or b is None:
                return None
            return {'+': a + b, '-': a - b, '<': a < b, '<=': a <= b, '>': a > b, '>=': a >= b, '!=': a != b, '==': a == b}.get(t.get('op'))
        return None
    n_scans = 0
    for h, body in sorted(loops.items()):
        idx = None
        for b in body:
            for e in f.blocks[b]['ev']:
                for n in walk(e):
                    if isinstance(n, dict) and n.get('k') == 'call' and n.get('op') == '[]' and (_strip(n.get('recv')) or {}).get('id') == lid and n.get('args'):
                        idx = n['args'][0]
        def has_access(blocks):
            return any(isinstance(n, dict) and n.get('k') == 'call' and n.get('op') == '[]' and (_strip(n.get('recv')) or {}).get('id') == lid
                       for b in blocks for e in f.blocks[b]['ev'] for n in walk(e))
        # the innermost loop around the access is the scan
        if idx is None or any(o != h and loops[o] < body and has_access(loops[o]) for o in loops):
            continue
        steps = {}
        for b in body:
            for e in f.blocks[b]['ev']:
                if e.get('k') == 'incdec' and (_strip(e.get('e')) or {}).get('k') == 'var':
                    steps.setdefault(_strip(e['e'])['id'], []).append(1 if e.get('op') == '++' else -1)
        cond = (f.blocks[h].get('term') or {}).get('cond')
        ctr = [v for v in steps if any(isinstance(n, dict) and n.get('k') == 'var' and n.get('id') == v for n in walk(cond))]
        if len(ctr) != 1 or len(steps[ctr[0]]) != 1 or cond is None:
            rep.broken(clause, 'a loop over the legal-move list in moveToString is not a counted loop')
            return
        vid, step = ctr[0], steps[ctr[0]][0]
        n_scans += 1
        bad = []
        for n in range(0, 9):
            x = ev(decls[vid].get('init'), {'n': n, 'counters': (vid,)}) if vid in decls else None
            seq = []
            for _ in range(40):
                if x is None:
                    break
                c = ev(cond, {'n': n, vid: x, 'counters': (vid,)})
                if c is None:
                    x = None
                    break
                if not c:
                    break
                seq.append(ev(idx, {'n': n, vid: x, 'counters': (vid,)}))
                x += step
            if x is None or None in seq:
                rep.broken(clause, 'the scan of the legal-move list is not evaluable for size %d' % n)
                return
            if sorted(seq) != list(range(n)):
                bad.append('size %d: visits %s' % (n, seq))
        rep.ob(clause, 'K12 finite evaluation', 'moveToString: scan #%d of the legal-move list visits every index 0..size-1 (sizes 0..8)' % n_scans, not bad,
               '%s:%s' % (f.file, (f.blocks[h].get('term') or {}).get('ln')), '; '.join(bad[:3]) or 'all sizes covered', f.sname)
    rep.floor(clause, 'scans of the legal-move list in moveToString', n_scans, 1)


# ----------------------------------------------------------------------------- .12

def c12_token_index_bounded(fb, rep):
    """K12 the UCI command line is split into tokens and read with a running index: `tokens[idx++]`.  A command line is
    arbitrary text, so every read with a variable index needs a test `idx < number of tokens` that is still *fresh*: it is
    evaluated with idx equal to the token count (the read must then be unreachable), and no increment of the index lies
    between the test and the read.  The argument of the last sub-command of a `go` line (`go mate`) is the place where a
    stale test - the loop condition, checked before the sub-command itself was consumed - reads past the vector."""
    clause = 'C17.12'
    f = fb.find1('UCIProtocol::handleCommand')
    if rep.need(clause, f, 'UCIProtocol::handleCommand') is None:
        return
    decls = {v['id']: v for _, _, e in f.events() if e.get('k') == 'decl' for v in e.get('vars', [])}
    vecs = {vid for vid, v in decls.items() if 'vector<std::string' in (v.get('t') or '') or 'vector<std::__cxx11::basic_string' in (v.get('t') or '') or (v.get('t') or '').startswith('std::vector<std::')}
    sizes = {vid for vid, v in decls.items() if v.get('init') is not None and any(isinstance(n, dict) and n.get('k') == 'call' and cname(n).split('::')[-1] == 'size' and
                                                                                 (_strip(n.get('recv')) or {}).get('id') in vecs for n in walk(v['init']))}
    if rep.need(clause, None if not (vecs and sizes) else 1, 'the token vector and its size local') is None:
        return
    doms_all = f.dominators()

    _mods = {}

    def mods(vid):
        # every node that changes the index, once (the first event of its block that contains it)
        if vid not in _mods:
            out, seen_nodes = [], set()
            for b, i, e in f.events():
                for n in walk(e):
                    if isinstance(n, dict) and (e.get('ln'), show(n, 40)) not in seen_nodes and ((n.get('k') == 'incdec' and (_strip(n.get('e')) or {}).get('id') == vid) or
                                                                         (n.get('k') == 'asg' and (_strip(n.get('l')) or {}).get('id') == vid)):
                        seen_nodes.add((e.get('ln'), show(n, 40)))
                        out.append((b, i, e.get('ln')))
            _mods[vid] = out
        return _mods[vid]

    def reaches_avoiding(start, target, avoid_block):
        (sb, si), (tb, ti) = start, target
        if sb == tb and si < ti:
            return True
        from collections import deque
        seen, dq = set(), deque(s_ for s_ in f.blocks[sb]['succ'] if s_ in f.blocks)
        while dq:
            x = dq.popleft()
            if x in seen or x == avoid_block:
                continue
            seen.add(x)
            if x == tb:
                return True
            dq.extend(s_ for s_ in f.blocks[x]['succ'] if s_ in f.blocks)
        return False
    n = 0
    judged = set()
    for b, i, e in f.events():
        acc = [x for x in walk(e) if isinstance(x, dict) and x.get('k') == 'call' and x.get('op') == '[]' and (_strip(x.get('recv')) or {}).get('id') in vecs and x.get('args')]
        for x in acc:
            if (e.get('ln'), show(x, 60)) in judged:
                continue
            judged.add((e.get('ln'), show(x, 60)))
            ivs = [v_.get('id') for v_ in walk(x['args'][0]) if isinstance(v_, dict) and v_.get('k') == 'var' and v_.get('vk') == 'local' and v_.get('id') not in sizes]
            if len(set(ivs)) != 1:
                continue            # constant index: judged by the argument-count tests of its command (C17.2 family)
            vid = ivs[0]
            n += 1
            ok = False
            # an index that still has its initial constant value at the read (no change can reach it) is tested through the
            # token count alone: `if (nTok < 2) return; ... tokens[idx]` with idx == 1
            c0 = (_strip(decls.get(vid, {}).get('init')) or {}).get('cv')
            untouched = c0 is not None and not any(mln != e.get('ln') and reaches_avoiding((mb, mi), (b, i), None) for mb, mi, mln in mods(vid))
            for N in ((c0,) if untouched else (1,)):
                leaf = lambda t, _N=N: ('v', _N) if t.get('k') == 'var' and (t.get('id') == vid or t.get('id') in sizes) else None
                # the guards that exclude idx == size, nearest first, and whether each is still fresh at the read
                for d in sorted(doms_all.get(b, set()), reverse=True):
                    blk = f.blocks[d]
                    term = blk.get('term') or {}
                    c = term.get('cond')
                    if d == b or c is None or len(blk['succ']) != 2 or not any(isinstance(n_, dict) and n_.get('k') == 'var' and (n_.get('id') == vid or (untouched and n_.get('id') in sizes)) for n_ in walk(c)):
                        continue
                    s0, s1 = blk['succ']
                    in0 = (s0 == b) or (s0 in doms_all.get(b, set()))
                    in1 = (s1 == b) or (s1 in doms_all.get(b, set()))
                    if in0 == in1:
                        continue
                    v = G.tv(c, leaf)
                    if v is None or bool(v) == in0:
                        continue        # this test does not exclude idx == size on the side that leads to the read
                    # an increment on the read's own source line is the post-increment of this very read
                    stale = any(mln != e.get('ln') and d in doms_all.get(mb, set()) and reaches_avoiding((mb, mi), (b, i), d) and not (mb == b and mi > i) for mb, mi, mln in mods(vid))
                    if not stale:
                        ok = True
                        break
            rep.ob(clause, 'K12 index bound', 'handleCommand: the token read with a running index at line %s is preceded by a fresh test that the index is below the token count' % (e.get('ln') or x.get('ln')),
                   ok, R.site(f, e), show(x, 60), f.sname)
    rep.floor(clause, 'token reads with a running index', n, 10)
