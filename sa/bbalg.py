"""Bit-level abstract interpretation of bitboard dataflow.

A bitboard expression built from  & | ^ ~  constant masks and shifts by constants is, for each
target bit t, a boolean function of "atoms at squares" (own piece on s, enemy piece on s, ...).
Two pieces:

* sym_stores: forward propagation of the straight-line definitions of a set of local
  variables to a program point (back edges cut, states merged when equal, facts recorded for
  selected branch conditions).  Gives, per distinct path class, the expression tree a variable
  holds at that point, written over the function's inputs.
* BitSem: evaluates such a tree at bit t for *all* assignments of its atoms at once (each
  atom is a truth-table column held in a Python integer), so that an implication between a
  generator's mask and a specification of the move rule is decided exhaustively per square.

Nothing of the repository is executed; trees outside the supported fragment raise Unsupported
and the calling rule reports analysis-broken.
"""
import copy
import json

from .core import cname, show, eff_cond, implied_atoms, strip_not, walk


class Unsupported(Exception):
    pass


def strip_casts(t):
    while isinstance(t, dict) and t.get('k') == 'cast':
        t = t.get('e')
    return t


def unwrap(t):
    """Strip casts and single-argument wrapper constructions (Square(x), copies)."""
    while isinstance(t, dict):
        if t.get('k') == 'cast':
            t = t.get('e')
        elif t.get('k') == 'ctor' and len(t.get('args', [])) == 1:
            t = t['args'][0]
        else:
            break
    return t


def subst(t, store):
    if isinstance(t, list):
        return [subst(x, store) for x in t]
    if not isinstance(t, dict):
        return t
    if t.get('k') == 'var' and 'id' in t and t['id'] in store:
        return copy.deepcopy(store[t['id']])
    return {k: (subst(v, store) if isinstance(v, (dict, list)) else v) for k, v in t.items()}


KEEP_ORIGIN = ('BitBoard::extractSquare',)     # mutates its argument to a subset of it: origin unchanged


def sym_stores(func, target, track, fact_of=None, max_states=256):
    """All distinct (store, facts) reaching position target=(block, idx) (events before idx applied).
    track: set of local variable ids to follow.  fact_of(atom_tree) -> name or None selects the
    branch atoms recorded as facts {name: bool}."""
    doms = func.dominators()
    live = func.live_blocks()
    tb, ti = target
    # blocks that can reach the target (ignoring back edges)
    back = set()
    for n, blk in func.blocks.items():
        for h in blk['succ']:
            if h in doms.get(n, set()):
                back.add((n, h))
    canreach = {tb}
    st = [tb]
    while st:
        x = st.pop()
        for p in func.preds.get(x, []):
            if (p, x) in back or p not in live or p in canreach:
                continue
            canreach.add(p)
            st.append(p)
    if func.entry not in canreach:
        raise Unsupported('target not reachable from entry')
    # topological order of canreach
    indeg = {b: 0 for b in canreach}
    for b in canreach:
        for s in func.blocks[b]['succ']:
            if s in canreach and (b, s) not in back:
                indeg[s] += 1
    order = []
    ready = [b for b in canreach if indeg[b] == 0]
    while ready:
        b = ready.pop()
        order.append(b)
        for s in func.blocks[b]['succ']:
            if s in canreach and (b, s) not in back:
                indeg[s] -= 1
                if indeg[s] == 0:
                    ready.append(s)
    states = {b: {} for b in canreach}       # block -> {key: (store, facts)}

    def key_of(store, facts):
        return json.dumps([sorted((k, json.dumps(v, sort_keys=True)) for k, v in store.items()), sorted(facts.items())])

    def add(b, store, facts):
        states[b][key_of(store, facts)] = (store, facts)
        if len(states[b]) > max_states:
            raise Unsupported('too many path classes at block %s of %s' % (b, func.sname))

    add(func.entry, {}, {})
    for b in order:
        blk = func.blocks[b]
        outs = []
        for store, facts in states[b].values():
            store = dict(store)
            n = len(blk['ev']) if b != tb else ti
            for e in blk['ev'][:n]:
                _transfer(e, store, track)
            outs.append((store, facts))
        if b == tb:
            return outs
        succ = [s for s in blk['succ'] if s in canreach and (b, s) not in back]
        term = blk.get('term') or {}
        c = eff_cond(term) if len(blk['succ']) == 2 and term.get('c') not in ('SwitchStmt', 'CXXTryStmt') else None
        for store, facts in outs:
            for s in succ:
                f2 = facts
                if c is not None and fact_of is not None:
                    side = (s == blk['succ'][0])
                    if blk['succ'][0] == blk['succ'][1]:
                        side = None
                    if side is not None:
                        f2 = dict(facts)
                        dead = False
                        for atom, tv in implied_atoms(c, side):
                            nm = fact_of(subst(atom, store))
                            if nm is not None:
                                val = bool(tv)
                                if nm in f2 and f2[nm] != val:
                                    dead = True
                                f2[nm] = val
                        if dead:
                            continue
                add(s, store, f2)
    raise Unsupported('target block not reached')


def _transfer(e, store, track):
    k = e.get('k')
    if k == 'decl':
        for v in e.get('vars', []):
            if v['id'] in track:
                if v.get('init') is not None:
                    store[v['id']] = subst(v['init'], store)
                else:
                    store.pop(v['id'], None)
    elif k == 'asg':
        l = e.get('l')
        if isinstance(l, dict) and l.get('k') == 'var' and l.get('id') in track:
            r = subst(e.get('r'), store)
            if e.get('op') == '=':
                store[l['id']] = r
            else:
                cur = store.get(l['id'], l)
                store[l['id']] = {'k': 'bin', 'op': e['op'][:-1], 't': e.get('ct') or e.get('t'), 'l': copy.deepcopy(cur), 'r': r}
    elif k == 'incdec':
        x = e.get('e')
        if isinstance(x, dict) and x.get('k') == 'var' and x.get('id') in track:
            store[x['id']] = {'k': 'opaque', 'why': 'incdec', 'n': x.get('n')}
    elif k == 'call':
        if cname(e) in KEEP_ORIGIN:
            return
        for a in e.get('mutargs', []) or []:
            pass
        for idx, a in enumerate(e.get('args', [])):
            a0 = strip_casts(a)
            if isinstance(a0, dict) and a0.get('k') == 'var' and a0.get('id') in track and idx in (e.get('mutargs') or []):
                store[a0['id']] = {'k': 'opaque', 'why': 'passed by mutable reference to ' + cname(e), 'n': a0.get('n')}


def relevant_ids(func, seeds, stop=()):
    """Transitive closure of local variable ids used in the definitions of `seeds` (not looking into `stop`)."""
    defs = {}
    for b, i, e in func.events():
        if e.get('k') == 'decl':
            for v in e.get('vars', []):
                if v.get('init') is not None:
                    defs.setdefault(v['id'], []).append(v['init'])
        elif e.get('k') == 'asg' and isinstance(e.get('l'), dict) and e['l'].get('k') == 'var' and 'id' in e['l']:
            defs.setdefault(e['l']['id'], []).append(e.get('r'))
    out = set()
    todo = list(seeds)
    while todo:
        v = todo.pop()
        if v in out or v in stop:
            continue
        out.add(v)
        for d in defs.get(v, []):
            for n in walk(d):
                if n.get('k') == 'var' and 'id' in n and n.get('vk') in ('local', None) and n['id'] not in out:
                    todo.append(n['id'])
    return out


def var_ids(t):
    return {n['id'] for n in walk(t) if n.get('k') == 'var' and 'id' in n}


M64 = (1 << 64) - 1


class BitSem:
    """Evaluates trees at one bit for all assignments at once.

    atom_of(tree) -> None (not an atom: recurse), ('sq', name) for a per-square atom, or
    ('flag', name) for a square-independent boolean.  Atom values are supplied through
    self.col(name, square)."""

    def __init__(self, atom_of):
        self.atom_of = atom_of
        self.vars = []          # [(name, square)]
        self.index = {}
        self.cols = None
        self.ones = 1

    # -- two-phase use: collect(...) any number of times, then freeze(), then value(...)

    def _var(self, name, sq):
        key = (name, sq)
        if key not in self.index:
            if self.cols is not None:
                raise Unsupported('atom %s@%s met after freeze' % key)
            self.index[key] = len(self.vars)
            self.vars.append(key)
        if self.cols is None:
            return 0
        return self.cols[self.index[key]]

    def freeze(self):
        n = len(self.vars)
        if n > 16:
            raise Unsupported('too many atoms: %d' % n)
        size = 1 << n
        self.ones = (1 << size) - 1
        cols = []
        for i in range(n):
            # column i: bit a set iff assignment a has variable i true
            period = 1 << i
            block = ((1 << period) - 1) << period            # period zeros then period ones
            reps = size // (2 * period)
            col = 0
            for r in range(reps):
                col |= block << (r * 2 * period)
            cols.append(col)
        self.cols = cols

    def col(self, name, sq):
        return self._var(name, sq)

    def ev(self, t, bit):
        """Column of (tree t) at bit `bit`; bit outside 0..63 is 0."""
        if bit < 0 or bit > 63:
            return 0
        if not isinstance(t, dict):
            raise Unsupported('no tree')
        a = self.atom_of(t)
        if a is not None:
            kind, name = a
            if kind == 'const':
                return self.ones if (name >> bit) & 1 else 0
            return self._var(name, bit if kind == 'sq' else None)
        k = t.get('k')
        if 'cv' in t and k in ('int', 'var', 'cast', 'un', 'bin', 'mem', 'sizeof', 'call'):
            return self.ones if ((t['cv'] & M64) >> bit) & 1 else 0
        if k == 'cast':
            return self.ev(t.get('e'), bit)
        if k == 'ctor' and len(t.get('args', [])) == 1:
            return self.ev(t['args'][0], bit)
        if k == 'un' and t.get('op') == '~':
            return self.ev(t['e'], bit) ^ self.ones
        if k == 'bin':
            op = t.get('op')
            if op in ('&', '|', '^'):
                x = self.ev(t['l'], bit)
                y = self.ev(t['r'], bit)
                return (x & y) if op == '&' else (x | y) if op == '|' else (x ^ y)
            if op in ('<<', '>>'):
                kk = strip_casts(t['r'])
                if not (isinstance(kk, dict) and 'cv' in kk):
                    raise Unsupported('shift by a non-constant: ' + show(t))
                s = kk['cv']
                return self.ev(t['l'], bit - s if op == '<<' else bit + s)
            raise Unsupported('operator %s in a bitboard expression: %s' % (op, show(t)))
        if k == 'cond':
            c = self.flag(t['c'])
            return (c & self.ev(t['a'], bit)) | ((c ^ self.ones) & self.ev(t['b'], bit))
        raise Unsupported('node %s in a bitboard expression: %s' % (k, show(t)))

    def flag(self, c):
        """A square-independent condition: an atom flag, possibly negated."""
        ce, pol = c, True
        a = self.atom_of(strip_casts(c))
        if a is None or a[0] != 'flag':
            ce, pol = strip_not(c)
            a = self.atom_of(ce)
        if a is None or a[0] != 'flag':
            raise Unsupported('condition is not a known flag: ' + show(c))
        v = self._var(a[1], None)
        return v if pol else v ^ self.ones


def implies(sem, constraint, premise, conclusion):
    """premise => conclusion on every assignment satisfying constraint.  Returns None when it
    holds, otherwise one falsifying assignment as {(name, sq): bool}."""
    bad = constraint & premise & (conclusion ^ sem.ones)
    if bad == 0:
        return None
    a = (bad & -bad).bit_length() - 1
    return {v: bool((a >> i) & 1) for i, v in enumerate(sem.vars)}
