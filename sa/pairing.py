"""K1 pairing: every `open` call is followed, on every non-exceptional path, by the matching
`close` call (same receiver, same key arguments) before the function exit and before the
next `open` on the same receiver."""
from .core import cname, ap, show


def arg_key(t):
    """Canonical rendering of an argument for matching (access path if it has one)."""
    p = ap(t)
    return p if p is not None else show(t, 200)


def check_pairs(func, open_names, close_of, recv_filter=None, nargs=2):
    """Yields (event, ok, detail) for each open call in func.  close_of maps the open callee
    name to the close callee name."""
    for b, i, e in func.events():
        if e.get('k') != 'call' or cname(e) not in open_names:
            continue
        r = e.get('recv')
        if recv_filter is not None and not recv_filter(r):
            continue
        rkey = ap(r)
        akey = [arg_key(a) for a in e.get('args', [])[:nargs]]
        want = close_of[cname(e)]

        def is_close(ev, _rkey=rkey, _akey=akey, _want=want):
            if ev is None or ev.get('k') != 'call' or cname(ev) != _want:
                return False
            if ap(ev.get('recv')) != _rkey:
                return False
            return [arg_key(a) for a in ev.get('args', [])[:nargs]] == _akey

        def is_open_again_or_exit(ev, _rkey=rkey, _e=e):
            if ev is None:
                return True
            if ev.get('k') == 'throw':
                return False
            return ev.get('k') == 'call' and cname(ev) in open_names and ap(ev.get('recv')) == _rkey

        def avoid(ev):
            return is_close(ev) or (ev is not None and ev.get('k') == 'throw')
        w = func.path_avoiding((b, i), is_open_again_or_exit, avoid)
        detail = ''
        if w is not None:
            detail = '%s(%s) on %s is not followed by %s with the same arguments on the path %s' % (
                cname(e).split('::')[-1], ', '.join(akey), rkey, want.split('::')[-1], ' -> '.join('B%s@%s' % x for x in w[-8:]))
        yield (b, i, e), w is None, detail
