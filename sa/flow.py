"""Path-sensitive forward dataflow over the event CFG (typestate / flag tracking).

The abstract state at a program point is a *set of configurations*; a configuration is any
hashable value chosen by the client (e.g. a tuple (typestate, flag1, flag2)).  The client
supplies
    transfer(event, cfg, pos)  -> iterable of successor configurations (may report violations)
    refine(cond_tree, truth, cfg) -> iterable of configurations (empty = infeasible)
Branches are refined with the *effective* condition of the block (see core.eff_cond), so
short-circuit idioms and flag variables are handled without a path explosion: the number of
configurations is bounded by the client's finite domain.
"""
from collections import deque

from .core import eff_cond, implied_atoms


class Flow:
    def __init__(self, func, transfer, refine=None, max_configs=256):
        self.f = func
        self.transfer = transfer
        self.refine = refine
        self.max_configs = max_configs
        self.inn = {}     # block -> set(cfg)
        self.out = {}     # block -> list of sets per successor index
        self.at_exit = set()
        self.overflow = False

    def run(self, init):
        f = self.f
        self.inn = {f.entry: set(init)}
        dq = deque([f.entry])
        inq = {f.entry}
        self.seen_all = set(init)
        catches = [b for b, blk in f.blocks.items() if (blk.get('label') or {}).get('k') == 'catch']
        while True:
            self._drain(dq, inq)
            if self.overflow:
                return self
            # exception handlers: entered with any configuration seen anywhere (conservative:
            # EH edges are not in the CFG, so the handler may start from any state of the body)
            again = False
            for b in catches:
                old = self.inn.setdefault(b, set())
                if not self.seen_all <= old:
                    old |= self.seen_all
                    if b not in inq:
                        inq.add(b)
                        dq.append(b)
                    again = True
            if not again:
                break
        return self

    def _drain(self, dq, inq):
        f = self.f
        while dq:
            b = dq.popleft()
            inq.discard(b)
            blk = f.blocks[b]
            cur = set(self.inn.get(b, ()))
            for i, e in enumerate(blk['ev']):
                nxt = set()
                for c in cur:
                    for c2 in self.transfer(e, c, (b, i)):
                        nxt.add(c2)
                cur = nxt
                self.seen_all |= cur
                if len(cur) > self.max_configs:
                    self.overflow = True
                    return self
            if b == f.exit:
                self.at_exit |= cur
            succ = blk['succ']
            term = blk.get('term')
            cond = eff_cond(term) if term else None
            two_way = cond is not None and len(succ) == 2 and term.get('c') not in ('SwitchStmt', 'CXXTryStmt', 'CXXForRangeStmt')
            for si, s in enumerate(succ):
                if s not in f.blocks:
                    continue
                if two_way and self.refine is not None:
                    truth = (si == 0)
                    atoms = implied_atoms(cond, truth)
                    flow = set(cur)
                    for atom, tv in atoms:
                        nxt = set()
                        for c in flow:
                            for c2 in self.refine(atom, tv, c):
                                nxt.add(c2)
                        flow = nxt
                else:
                    flow = cur
                old = self.inn.get(s)
                if old is None:
                    self.inn[s] = set(flow)
                    changed = True
                else:
                    n0 = len(old)
                    old |= flow
                    changed = len(old) != n0
                if changed and s not in inq:
                    inq.add(s)
                    dq.append(s)
                self.seen_all |= flow
        return self


def pruned_edges(func, raw):
    """Edges that clang pruned as trivially false are already removed by Func; this helper is
    only for reporting."""
    return 0
