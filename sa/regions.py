"""Structured views of CFG regions: branch arms, guarded statements, rendering for sibling /
colour-mirror comparison (K10)."""
import re

from .core import cname, ap, show, strip_not, eff_cond

WRITE_KINDS = ('asg', 'incdec')


def ipdom(func, b):
    """Immediate post-dominator of block b (nearest block that every path from b reaches)."""
    pd = func.postdominators()
    cands = pd.get(b, set()) - {b}
    best = None
    for c in cands:
        # c is the immediate one if all other candidates post-dominate c
        if all((o == c) or (o in pd.get(c, set())) for o in cands):
            best = c
    return best


def region(func, start, stop):
    """Blocks reachable from start without entering stop."""
    seen = set()
    st = [start]
    while st:
        x = st.pop()
        if x in seen or x == stop or x not in func.blocks:
            continue
        seen.add(x)
        st.extend(func.blocks[x]['succ'])
    return seen


def is_effect(e):
    k = e.get('k')
    if k in WRITE_KINDS:
        return True
    if k == 'call':
        if e.get('recv') is not None and not e.get('cmeth') and e.get('repo'):
            return True
        n = cname(e)
        if n.startswith('std::') and e.get('recv') is not None and not e.get('cmeth'):
            return n.split('::')[-1] in ('push_back', 'clear', 'erase', 'pop_back', 'reset', 'resize', 'operator=', 'swap', 'store')
    return False


def guards_of(func, blocks, b, skip_loops=True):
    """Rendered guard context of block b inside a region: [(cond string, side)]."""
    out = []
    doms = func.dominators().get(b, set())
    for d in sorted(doms & blocks, reverse=True):
        if d == b:
            continue
        blk = func.blocks[d]
        term = blk.get('term')
        if not term or len(blk['succ']) != 2:
            continue
        c = eff_cond(term)
        if c is None:
            continue
        s0, s1 = blk['succ']
        if term.get('c') in ('ForStmt', 'WhileStmt', 'DoStmt', 'CXXForRangeStmt') and skip_loops:
            # code after a loop is not "guarded" by the loop's exit condition
            if not _reaches(func, b, d):
                continue
        in0 = (s0 == b) or (s0 in doms)
        in1 = (s1 == b) or (s1 in doms)
        if in0 == in1:
            continue
        other = s1 if in0 else s0
        if other == b or _reaches_avoiding(func, other, b, d):
            continue        # b is (after) the join of this branch: reachable from the other side too
        ce, pol = strip_not(c)
        side = (in0 == pol)
        out.append(('%s%s' % ('' if side else '!', show(ce, 300))))
    return out


def _reaches(func, a, b):
    seen = set()
    st = [a]
    while st:
        x = st.pop()
        for s2 in func.blocks[x]['succ']:
            if s2 == b:
                return True
            if s2 not in seen and s2 in func.blocks:
                seen.add(s2)
                st.append(s2)
    return False


def _reaches_avoiding(func, a, b, avoid):
    if a == avoid:
        return False
    seen = {a}
    st = [a]
    while st:
        x = st.pop()
        for s2 in func.blocks[x]['succ']:
            if s2 == avoid:
                continue
            if s2 == b:
                return True
            if s2 not in seen and s2 in func.blocks:
                seen.add(s2)
                st.append(s2)
    return False


def loop_header_of(func, b):
    """Innermost loop header (block with a loop terminator) whose body contains b, else None."""
    best = None
    for d in func.dominators().get(b, set()):
        t = func.blocks[d].get('term')
        if t and t.get('c') in ('ForStmt', 'WhileStmt', 'CXXForRangeStmt') and d != b and _reaches(func, b, d):
            if best is None or best in func.dominators().get(d, set()):
                best = d
    return best


def arm_statements(func, start, stop, with_guards=True):
    """Sorted multiset of rendered effect statements of a region, each with its guard context."""
    blocks = region(func, start, stop)
    out = []
    for b in sorted(blocks, reverse=True):
        for e in func.blocks[b]['ev']:
            if is_effect(e):
                g = guards_of(func, blocks, b) if with_guards else []
                out.append(('[%s] ' % ' && '.join(g) if g else '') + show(e, 400))
    return sorted(out)


COLOUR_TOKENS = [
    ('wMtrlPawns_', 'bMtrlPawns_'), ('wMtrl_', 'bMtrl_'), ('whiteBB_', 'blackBB_'),
    ('WPAWN', 'BPAWN'), ('WKNIGHT', 'BKNIGHT'), ('WBISHOP', 'BBISHOP'), ('WROOK', 'BROOK'), ('WQUEEN', 'BQUEEN'),
    ('WKING', 'BKING'), ('wKingSq', 'bKingSq'), ('whiteBB', 'blackBB'), ('wMtrlPawns', 'bMtrlPawns'), ('wMtrl', 'bMtrl'),
]


def colour_swap(s, extra=()):
    """Swap white<->black identifiers in a rendered statement."""
    pairs = list(COLOUR_TOKENS) + list(extra)
    toks = {}
    for a, b in pairs:
        toks[a] = b
        toks[b] = a
    pat = re.compile(r'\b(' + '|'.join(sorted((re.escape(t) for t in toks), key=len, reverse=True)) + r')\b')
    return pat.sub(lambda m: toks[m.group(1)], s)


def branch_arms(func, cond_pred):
    """[(block, true-arm start, false-arm start, join)] for 2-way branches whose effective
    condition (after peeling !) satisfies cond_pred; arms are swapped back for negated forms."""
    out = []
    for bid, blk in func.blocks.items():
        if bid in func.dead:
            continue
        term = blk.get('term')
        if not term or len(blk['succ']) != 2 or term.get('c') in ('SwitchStmt', 'CXXTryStmt', 'CXXForRangeStmt'):
            continue
        c = eff_cond(term)
        e, pol = strip_not(c)
        if e is None or not cond_pred(e):
            continue
        t, f = blk['succ']
        if not pol:
            t, f = f, t
        out.append((bid, t, f, ipdom(func, bid)))
    return out
