"""Structured views of CFG regions: branch arms, guarded statements, rendering for sibling /
colour-mirror comparison (K10)."""
import re

from .core import cname, ap, show, strip_not, eff_cond, implied_atoms, canonical

WRITE_KINDS = ('asg', 'incdec')


def ipdom(func, b):
    """Immediate post-dominator of block b (nearest block that every path from b reaches)."""
    pd = func.postdominators()
    cands = pd.get(b, set()) - {b}
    best = None
    for c in cands:
        # c is the immediate one if all other candidates post-dominate c
        if all((o == c) or (o in pd.get(c, set())) for o in cands):
            best = c
    return best


def region(func, start, stop):
    """Blocks reachable from start without entering stop."""
    seen = set()
    st = [start]
    while st:
        x = st.pop()
        if x in seen or x == stop or x not in func.blocks:
            continue
        seen.add(x)
        st.extend(func.blocks[x]['succ'])
    return seen


def is_effect(e):
    k = e.get('k')
    if k in WRITE_KINDS:
        return True
    if k == 'call':
        if e.get('recv') is not None and not e.get('cmeth') and e.get('repo'):
            return True
        n = cname(e)
        if n.startswith('std::') and e.get('recv') is not None and not e.get('cmeth'):
            return n.split('::')[-1] in ('push_back', 'clear', 'erase', 'pop_back', 'reset', 'resize', 'operator=', 'swap', 'store')
    return False


def guards_of(func, blocks, b, skip_loops=True):
    """Rendered guard context of block b inside a region: ['cond' or '!cond']."""
    return [('%s%s' % ('' if side else '!', show(ce, 300))) for ce, side in guard_trees(func, blocks, b, skip_loops)]


def guard_trees(func, blocks, b, skip_loops=True):
    """Guard context of block b inside a region as [(atom tree, truth)] (negations stripped)."""
    out = []
    doms = func.dominators().get(b, set())
    if blocks >= set(func.blocks):
        out += _disjunction_facts(func, b, doms)
    for d in sorted(doms & blocks, reverse=True):
        if d == b:
            continue
        blk = func.blocks[d]
        term = blk.get('term')
        if not term or len(blk['succ']) != 2:
            continue
        c = eff_cond(term)
        if c is None:
            continue
        s0, s1 = blk['succ']
        if term.get('c') in ('ForStmt', 'WhileStmt', 'DoStmt', 'CXXForRangeStmt') and skip_loops:
            # code after a loop is not "guarded" by the loop's exit condition
            if not _reaches(func, b, d):
                continue
        in0 = (s0 == b) or (s0 in doms)
        in1 = (s1 == b) or (s1 in doms)
        if in0 == in1:
            continue
        other = s1 if in0 else s0
        if other == b or _reaches_avoiding(func, other, b, d):
            continue        # b is (after) the join of this branch: reachable from the other side too
        if term.get('c') == 'BinaryOperator' and _feeds_vshape(func, d, doms):
            continue        # operand block of a value-shaped condition: the statement's block carries the guard
        for atom, tv in implied_atoms(c, in0):
            ce, pol = strip_not(atom)
            side = (tv == pol)
            out.append((ce, side))
    return out


def _disjunction_facts(func, b, doms):
    """Disjunctive conjuncts of if-conditions that hold at block b.  The then-block T of `if (C)` is entered from
    several blocks when C contains `||` (each operand that short-circuits to true, and the final decision), so no
    single dominating branch carries the fact; but if T is entered *only* from blocks of C's own evaluation - the
    statement's block and `||`-operand blocks of C whose true edge goes to T - then C holds at T.  Returned are the
    top-level conjuncts of C that are disjunctions (the other conjuncts are found by the ordinary dominator walk)."""
    out = []
    for ib, blk in func.blocks.items():
        t = blk.get('term') or {}
        if t.get('c') != 'IfStmt' or len(blk['succ']) != 2 or t.get('cond') is None or t.get('vshape'):
            continue
        T = blk['succ'][0]
        if not (T == b or T in doms) or T == blk['succ'][1]:
            continue
        full = show(t['cond'], 4000)
        ok = True
        for p in func.preds.get(T, []):
            if p == ib:
                continue
            pb = func.blocks[p]
            pt = pb.get('term') or {}
            if not (pt.get('c') == 'BinaryOperator' and pt.get('op') == '||' and len(pb['succ']) == 2 and pb['succ'][0] == T and
                    pt.get('cond') is not None and show(pt['cond'], 4000) in full):
                ok = False
                break
        if not ok:
            continue
        todo = [t['cond']]
        while todo:
            a = todo.pop()
            while isinstance(a, dict) and a.get('k') == 'cast' and a.get('imp'):
                a = a.get('e')
            if isinstance(a, dict) and a.get('k') == 'bin' and a.get('op') == '&&':
                todo += [a.get('r'), a.get('l')]
            elif isinstance(a, dict) and a.get('k') == 'bin' and a.get('op') == '||':
                out.append((a, True))
    return out


def _feeds_vshape(func, d, doms=None):
    """d is an operand block of a value-shaped condition whose statement block lies before the
    block in question (doms = its dominators).  A block that evaluates a later operand of the
    same condition is still guarded by the earlier operands."""
    for s2 in func.blocks[d]['succ']:
        t2 = func.blocks[s2].get('term') if s2 in func.blocks else None
        if t2 and t2.get('vshape') and (doms is None or s2 in doms):
            return True
    return False


def _reaches(func, a, b):
    seen = set()
    st = [a]
    while st:
        x = st.pop()
        for s2 in func.blocks[x]['succ']:
            if s2 == b:
                return True
            if s2 not in seen and s2 in func.blocks:
                seen.add(s2)
                st.append(s2)
    return False


def _reaches_avoiding(func, a, b, avoid):
    if a == avoid:
        return False
    seen = {a}
    st = [a]
    while st:
        x = st.pop()
        for s2 in func.blocks[x]['succ']:
            if s2 == avoid:
                continue
            if s2 == b:
                return True
            if s2 not in seen and s2 in func.blocks:
                seen.add(s2)
                st.append(s2)
    return False


LOOP_TERMS = ('ForStmt', 'WhileStmt', 'CXXForRangeStmt', 'DoStmt')


def loop_header_of(func, b):
    """The block carrying the loop statement (its terminator is the for/while/do, its condition the
    whole loop condition) of the innermost natural loop whose body contains b; None if b is in no loop.
    For short-circuit conditions the natural-loop header is the first operand's block; the block
    returned here is the one whose terminator is the loop statement itself."""
    nl = func.natural_loops()
    best = None
    for h, body in nl.items():
        if b in body and (b != h or any(s2 in body for s2 in func.blocks[b]['succ'])):
            if best is None or len(body) < len(nl[best]):
                best = h
    if best is None:
        return None
    body = nl[best]
    doms = func.dominators()
    cands = [x for x in body if (func.blocks[x].get('term') or {}).get('c') in LOOP_TERMS]
    if not cands:
        return best
    # the loop's own statement block: the candidate with the fewest dominators (outermost within this body)
    cands.sort(key=lambda x: len(doms.get(x, ())))
    if b in cands and b != cands[0] and False:
        return b
    return cands[0]


def enclosing_loop_stmt(func, b):
    """Innermost loop statement (block with a for/while terminator) whose body lexically contains b, including
    blocks that leave the loop (break / return), which are not part of the natural loop."""
    doms = func.dominators()
    best = None
    for d in doms.get(b, set()):
        t = func.blocks[d].get('term')
        if not t or t.get('c') not in LOOP_TERMS or d == b:
            continue
        body_entry = func.blocks[d]['succ'][0] if func.blocks[d]['succ'] else None
        if body_entry is None:
            continue
        if body_entry == b or body_entry in doms.get(b, set()):
            if best is None or len(doms.get(d, ())) > len(doms.get(best, ())):
                best = d
    return best


def arm_statements(func, start, stop, with_guards=True):
    """Sorted multiset of rendered effect statements of a region, each with its guard context."""
    blocks = region(func, start, stop)
    out = []
    with canonical(func):        # locals and parameters are compared by position / declaration order, not by name
        for b in sorted(blocks, reverse=True):
            for e in func.blocks[b]['ev']:
                if is_effect(e):
                    g = guards_of(func, blocks, b) if with_guards else []
                    out.append(('[%s] ' % ' && '.join(g) if g else '') + show(e, 400))
    return sorted(out)


COLOUR_TOKENS = [
    ('wMtrlPawns_', 'bMtrlPawns_'), ('wMtrl_', 'bMtrl_'), ('whiteBB_', 'blackBB_'),
    ('WPAWN', 'BPAWN'), ('WKNIGHT', 'BKNIGHT'), ('WBISHOP', 'BBISHOP'), ('WROOK', 'BROOK'), ('WQUEEN', 'BQUEEN'),
    ('WKING', 'BKING'), ('wKingSq', 'bKingSq'), ('whiteBB', 'blackBB'), ('wMtrlPawns', 'bMtrlPawns'), ('wMtrl', 'bMtrl'),
]


def colour_swap(s, extra=()):
    """Swap white<->black identifiers in a rendered statement."""
    pairs = list(COLOUR_TOKENS) + list(extra)
    toks = {}
    for a, b in pairs:
        toks[a] = b
        toks[b] = a
    pat = re.compile(r'\b(' + '|'.join(sorted((re.escape(t) for t in toks), key=len, reverse=True)) + r')\b')
    return pat.sub(lambda m: toks[m.group(1)], s)


def branch_arms(func, cond_pred):
    """[(block, true-arm start, false-arm start, join)] for 2-way branches whose effective
    condition (after peeling !) satisfies cond_pred; arms are swapped back for negated forms."""
    out = []
    for bid, blk in func.blocks.items():
        if bid in func.dead:
            continue
        term = blk.get('term')
        if not term or len(blk['succ']) != 2 or term.get('c') in ('SwitchStmt', 'CXXTryStmt', 'CXXForRangeStmt'):
            continue
        c = eff_cond(term)
        hit = None
        for truth in (True, False):
            for atom, tv in implied_atoms(c, truth):
                e, pol = strip_not(atom)
                if e is not None and cond_pred(e) and hit is None:
                    # taking the `truth` successor implies the matched expression has value (tv == pol)
                    hit = (truth, tv == pol)
        if hit is None:
            continue
        s_true, s_false = blk['succ']
        side_succ = s_true if hit[0] else s_false
        other = s_false if hit[0] else s_true
        t, f = (side_succ, other) if hit[1] else (other, side_succ)
        out.append((bid, t, f, ipdom(func, bid)))
    return out


# ----------------------------------------------------------------------------- three-valued guard evaluation

def tv(t, leaf, depth=0):
    """Three-valued evaluation of a condition / integer expression tree: leaf(node) may return ('v', value) for the nodes
    the caller gives a value to (a field, a call, a variable); constants evaluate to themselves; everything else is
    unknown (None).  `&&` / `||` are decided by one known operand where possible."""
    while isinstance(t, dict) and t.get('k') in ('cast', 'paren') and 'cv' not in t:
        t = t.get('e')
    if not isinstance(t, dict) or depth > 24:
        return None
    lv = leaf(t)
    if lv is not None:
        return lv[1]
    if 'cv' in t:
        return t['cv']
    k = t.get('k')
    if k in ('cast', 'paren'):
        return tv(t.get('e'), leaf, depth + 1)
    if k == 'ctor' and len(t.get('args', [])) == 1:
        return tv(t['args'][0], leaf, depth + 1)
    if k == 'un':
        v = tv(t.get('e'), leaf, depth + 1)
        if v is None:
            return None
        return {'!': lambda: not v, '-': lambda: -v, '+': lambda: v, '~': lambda: ~v}.get(t.get('op'), lambda: None)()
    if k == 'cond':
        c = tv(t.get('c'), leaf, depth + 1)
        if c is None:
            a, b = tv(t.get('a'), leaf, depth + 1), tv(t.get('b'), leaf, depth + 1)
            return a if a is not None and a == b else None
        return tv(t.get('a') if c else t.get('b'), leaf, depth + 1)
    ops = None
    if k == 'bin':
        ops = (t.get('l'), t.get('r'))
    elif k == 'call' and t.get('op') in ('==', '!=', '<', '<=', '>', '>=', '+', '-') and len(([t['recv']] if t.get('recv') is not None else []) + t.get('args', [])) == 2:
        ops = tuple(([t['recv']] if t.get('recv') is not None else []) + t.get('args', []))
    elif k == 'call' and not t.get('args') and t.get('recv') is not None and t.get('n', '').split('::')[-1].startswith('operator'):
        return tv(t['recv'], leaf, depth + 1)          # conversion operators (operator bool, operator T)
    if ops is None:
        return None
    op = t.get('op')
    a, b = tv(ops[0], leaf, depth + 1), tv(ops[1], leaf, depth + 1)
    if op == '&&':
        if (a is not None and not a) or (b is not None and not b):
            return False
        return None if a is None or b is None else True
    if op == '||':
        if (a is not None and a) or (b is not None and b):
            return True
        return None if a is None or b is None else False
    if a is None or b is None:
        return None
    try:
        r = {'==': lambda: a == b, '!=': lambda: a != b, '<': lambda: a < b, '<=': lambda: a <= b, '>': lambda: a > b, '>=': lambda: a >= b,
             '+': lambda: a + b, '-': lambda: a - b, '*': lambda: a * b, '&': lambda: a & b, '|': lambda: a | b}.get(op, lambda: None)()
    except Exception:
        return None
    # arithmetic in an unsigned type wraps (a difference of sizes that "cannot be negative" is the classic case)
    if op in ('+', '-', '*') and isinstance(r, int) and not isinstance(r, bool):
        ty = (t.get('t') or '').replace('const ', '')
        bits = {'unsigned long': 64, 'unsigned long long': 64, 'U64': 64, 'size_t': 64, 'std::size_t': 64, 'unsigned int': 32, 'U32': 32, 'unsigned short': 16, 'unsigned char': 8}.get(ty)
        if bits:
            r %= (1 << bits)
    return r


def excluded_under(func, b, leaf, blocks=None):
    """True if, under the partial valuation `leaf`, some dominating condition of block b has the wrong outcome: the block
    cannot be reached with these values.  Independent of how the test is written (`> 0`, `!= 0`, `>= 1`, early return)."""
    region = blocks if blocks is not None else set(func.blocks)
    for c, side in list(guard_trees(func, region, b)) + _whole_conditions(func, region, b):
        v = tv(c, leaf)
        if v is not None and bool(v) != side:
            return True
    return False


def _whole_conditions(func, blocks, b):
    """Dominating branch conditions that guard_trees cannot split into atoms (a disjunction taken as true, a conjunction
    taken as false) as whole trees with the side taken; only the three-valued evaluation can use them."""
    out = []
    doms = func.dominators().get(b, set())
    for d in sorted(doms & blocks, reverse=True):
        if d == b:
            continue
        blk = func.blocks[d]
        term = blk.get('term')
        if not term or len(blk['succ']) != 2:
            continue
        c = eff_cond(term)
        if c is None:
            continue
        s0, s1 = blk['succ']
        if term.get('c') in ('ForStmt', 'WhileStmt', 'DoStmt', 'CXXForRangeStmt') and not _reaches(func, b, d):
            continue
        in0 = (s0 == b) or (s0 in doms)
        in1 = (s1 == b) or (s1 in doms)
        if in0 == in1:
            continue
        other = s1 if in0 else s0
        if other == b or _reaches_avoiding(func, other, b, d):
            continue
        if term.get('c') == 'BinaryOperator' and _feeds_vshape(func, d, doms):
            continue
        if not implied_atoms(c, in0):
            out.append((c, in0))
    return out
