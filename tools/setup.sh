#!/bin/sh
# MANIFEST.setup_cmd: build the fact extractor from files on disk (offline).
set -e
cd "$(dirname "$0")/.."
./tool/build.sh
test -x build/txsa
