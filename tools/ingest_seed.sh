#!/bin/sh
# ingest_seed.sh <id> <property> : copies /tmp/wt/<id>/seed to /verif/seeded/<id>/ and confirms it in a fresh scratch
# worktree: demo passes on the unchanged tree, patch applies, baseline still passes, demo fails with the patch.
# Writes /verif/seeded/<id>/confirm.log; the worktrees are removed afterwards.
ID=$1; PROP=$2
SRC=/tmp/wt/$ID/seed
DST=/verif/seeded/$ID
set -e
mkdir -p $DST
cp -r $SRC/patch.diff $DST/
rm -rf $DST/demo; cp -r $SRC/demo $DST/demo
cp $SRC/README.md $DST/agent_README.md 2>/dev/null || true
V=/tmp/wtv_$ID
git -C /repo worktree remove --force $V 2>/dev/null || true
git -C /repo worktree add -q --detach $V HEAD
LOG=$DST/confirm.log
: > $LOG
set +e
echo "== demo on unchanged tree" >> $LOG
( bash $DST/demo/run.sh $V ) >> $LOG 2>&1; RC_CLEAN=$?
echo "exit=$RC_CLEAN" >> $LOG
echo "== apply patch" >> $LOG
git -C $V apply $DST/patch.diff >> $LOG 2>&1; RC_APPLY=$?
echo "exit=$RC_APPLY" >> $LOG
echo "== baseline with patch" >> $LOG
/verif/tools/baseline.sh $V $V/_build >> $LOG 2>&1; RC_BASE=$?
echo "exit=$RC_BASE" >> $LOG
echo "== demo with patch" >> $LOG
( bash $DST/demo/run.sh $V ) >> $LOG 2>&1; RC_PATCH=$?
echo "exit=$RC_PATCH" >> $LOG
echo "== check $PROP on patched tree" >> $LOG
rm -rf $V/_build
/verif/check $PROP --repo $V >> $LOG 2>&1; RC_CHECK=$?
echo "exit=$RC_CHECK" >> $LOG
git -C /repo worktree remove --force $V
echo "SUMMARY id=$ID prop=$PROP clean=$RC_CLEAN apply=$RC_APPLY baseline=$RC_BASE patched=$RC_PATCH check=$RC_CHECK" | tee -a $LOG
