#!/bin/sh
# Runs the repository's stable baseline (guard off: no hook defines exist) and compares
# with /root/.vp/BASELINE.json's stable_pass list.  Usage: baseline.sh [repo-dir] [build-dir]
REPO=${1:-/repo}
BUILD=${2:-$REPO/_build}
set -e
cmake -G Ninja -S "$REPO" -B "$BUILD" >/dev/null
cmake --build "$BUILD" -j16 2>&1 | tail -2
JUNIT=$(mktemp /tmp/txbase.XXXXXX.xml)
ctest --test-dir "$BUILD" -j8 --timeout 900 --output-junit "$JUNIT" >/dev/null 2>&1 || true
python3 - "$JUNIT" <<'PY'
import json,sys,xml.etree.ElementTree as ET
base=json.load(open('/root/.vp/BASELINE.json'))
want=set(n.split('::')[0] for n in base['stable_pass'] if '.' in n.split('::')[0])
t=ET.parse(sys.argv[1]).getroot()
st={}
for tc in t.iter('testcase'):
    ok = tc.find('failure') is None and tc.find('error') is None and tc.get('status','run')!='fail'
    st[tc.get('name')]=ok
missing=[n for n in sorted(want) if not st.get(n,False)]
print("stable tests expected: %d, passing now: %d"%(len(want),len(want)-len(missing)))
for m in missing: print("NOT PASSING:",m)
sys.exit(1 if missing else 0)
PY
rc=$?
rm -f "$JUNIT"
exit $rc
