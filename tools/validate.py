#!/usr/bin/env python3
import json, sys, glob, os
sys.path.insert(0, '/opt/veriftools/pyvenv/lib/python3.11/site-packages')
try:
    import jsonschema
except ImportError:
    import subprocess
    sys.exit(subprocess.call(['python3-vt', __file__]))
V = os.path.dirname(os.path.dirname(os.path.abspath(__file__)))
jsonschema.validate(json.load(open(V + '/MANIFEST.json')), json.load(open('/root/.vp/MANIFEST.schema.json')))
es = json.load(open('/root/.vp/EVIDENCE.schema.json'))
for f in sorted(glob.glob(V + '/evidence/C*.json')):
    jsonschema.validate(json.load(open(f)), es)
    print('ok', os.path.basename(f))
print('MANIFEST ok')
