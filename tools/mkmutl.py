#!/usr/bin/env python3
"""mkmutl.py <Cxx> <name> <repo-relative file> <line>[,<line>...] [--benign]   (stdin: OLD\n=====\nNEW)
Like mkmut.py, but OLD is replaced on the given source line(s) only (for files with repeated text)."""
import difflib
import os
import sys

VERIF = os.path.dirname(os.path.dirname(os.path.abspath(__file__)))
pid, name, path, lines = sys.argv[1:5]
benign = '--benign' in sys.argv
raw = sys.stdin.read()
if not raw.endswith('\n'):
    raw += '\n'
old, sep, new = raw.partition('\n=====\n')
new = new[:-1] if new.endswith('\n') else new
if not sep:
    sys.exit('spec needs OLD\\n=====\\nNEW')
src = open(os.path.join('/repo', path)).read().splitlines(True)
out = list(src)
for ln in lines.split(','):
    i = int(ln) - 1
    if old not in out[i]:
        sys.exit('OLD not on line %s: %r' % (ln, out[i]))
    out[i] = out[i].replace(old, new)
diff = ''.join(difflib.unified_diff(src, out, 'a/' + path, 'b/' + path))
d = os.path.join(VERIF, 'selftest', 'mutants', pid)
os.makedirs(d, exist_ok=True)
fn = os.path.join(d, name + ('.benign' if benign else '') + '.patch')
open(fn, 'w').write(diff)
print(fn, len(diff.splitlines()), 'lines')
