#!/usr/bin/env python3
"""rename_test.py [Cxx ...] [--jobs N] [--keep-failing DIR]

False-alarm probe: for every function a property's obligations name, rename all of its local
variables and parameters (a behaviour-preserving edit) in a scratch copy of the sources and run the
property's check there.  Expected: exit 0.  Exit 1 = a rule keyed on a local name (false alarm in
waiting); exit 2 = analysis broken (rule lost its anchor) - both are reported.  Variants whose renamed
source no longer compiles (name clash with a member) are skipped.
"""
import importlib
import os
import re
import shutil
import subprocess
import sys
import tempfile
from concurrent.futures import ThreadPoolExecutor
from importlib.machinery import SourceFileLoader

VERIF = os.path.dirname(os.path.dirname(os.path.abspath(__file__)))
sys.path.insert(0, VERIF)
chk = SourceFileLoader('chk', os.path.join(VERIF, 'check')).load_module()
from sa import report  # noqa: E402

REPO = '/repo'


def func_range(path, start_line, name=None):
    src = open(path).read().split('\n')
    # find the opening brace of the body at or after start_line - 1 (the fact line is the body's line); the
    # signature may span several lines: start at the line that carries the function's name
    i = max(0, start_line - 3)
    if name:
        last = name.split('::')[-1]
        for k in range(start_line - 1, max(-1, start_line - 14), -1):
            if 0 <= k < len(src) and re.search(r'\b%s\s*\(' % re.escape(last), src[k]):
                i = k
                break
    depth = 0
    begun = False
    for ln in range(i, len(src)):
        line = re.sub(r'//.*', '', src[ln])
        line = re.sub(r'"(\\.|[^"\\])*"', '""', line)
        line = re.sub(r"'(\\.|[^'\\])+'", "''", line)
        for ch in line:
            if ch == '{':
                depth += 1
                begun = True
            elif ch == '}':
                depth -= 1
        if begun and depth <= 0:
            return i, ln
    return None


def rename_in(lines, names):
    """Rename identifiers outside comments, string and character literals."""
    pat = re.compile(r'(?<![\w.])(?<!->)(?<!::)(%s)\b(?!\s*::)' % '|'.join(re.escape(n) for n in names)) if names else None
    lit = re.compile(r'"(?:\\.|[^"\\])*"|\'(?:\\.|[^\'\\])+\'')
    out = []
    for line in lines:
        code, sep, comment = line.partition('//')
        if pat is not None:
            parts = []
            last = 0
            for m in lit.finditer(code):
                parts.append(pat.sub(lambda mm: mm.group(1) + '_rn', code[last:m.start()]))
                parts.append(m.group(0))
                last = m.end()
            parts.append(pat.sub(lambda mm: mm.group(1) + '_rn', code[last:]))
            code = ''.join(parts)
        out.append(code + sep + comment)
    return out


def candidates(fb, pid):
    rep = report.Report(pid, 'quick', REPO)
    importlib.import_module('sa.props.' + pid).run(fb, rep, 'quick')
    names = sorted({o['function'] for o in rep.obs if o.get('function')})
    out = []
    for nm in names:
        fs = [f for f in fb.funcs.values() if f.has_cfg and f.sname == nm and f.file and not f.d.get('lambda')]
        if not fs:
            continue
        f = sorted(fs, key=lambda x: x.key)[0]
        locs = set()
        for g in fs + [l for x in fs for l in fb.lambdas_in(x)]:
            for _, _, e in g.events():
                if e.get('k') == 'decl':
                    for v in e.get('vars', []):
                        if v.get('n') and not v['n'].startswith('__'):
                            locs.add(v['n'])
            for p in g.d.get('params', []):
                if p.get('n'):
                    locs.add(p['n'])
        if locs:
            out.append((pid, nm, f.file.replace('/./', '/'), f.line, sorted(locs, key=len, reverse=True)))
    return out


def run_one(c):
    pid, nm, rel, line, names = c
    scratch = tempfile.mkdtemp(prefix='txren_')
    try:
        for top in ('lib', 'app', 'test', 'cmake', 'CMakeLists.txt'):
            src = os.path.join(REPO, top)
            dst = os.path.join(scratch, top)
            shutil.copytree(src, dst, symlinks=True) if os.path.isdir(src) else shutil.copy2(src, dst)
        for f in ('nndata.tbin.compr', 'texelbook.bin'):
            if os.path.exists(os.path.join(REPO, f)):
                shutil.copy2(os.path.join(REPO, f), os.path.join(scratch, f))
        path = os.path.join(scratch, rel)
        rng = func_range(path, line, nm)
        if rng is None:
            return c, 'skip', 'no body found'
        lines = open(path).read().split('\n')
        a, b = rng
        lines[a:b + 1] = rename_in(lines[a:b + 1], names)
        open(path, 'w').write('\n'.join(lines))
        r = subprocess.run([os.path.join(VERIF, 'check'), pid, '--repo', scratch], capture_output=True, text=True)
        msg = '; '.join(l[:260] for l in r.stdout.splitlines() if l.startswith(('violation:', 'ANALYSIS-BROKEN')))[:900]
        if r.returncode not in (0, 2) and not msg:
            msg = 'no report: ' + (r.stderr or r.stdout)[-400:].replace('\n', ' | ')
        if r.returncode == 2 and 'extractor failed' in msg:
            return c, 'skip', 'renamed source does not compile'
        return c, r.returncode, msg
    finally:
        shutil.rmtree(scratch, ignore_errors=True)


def main():
    args = [a for a in sys.argv[1:] if not a.startswith('--')]
    jobs = 12
    if '--jobs' in sys.argv:
        jobs = int(sys.argv[sys.argv.index('--jobs') + 1])
        args = [a for a in args if a != str(jobs)]
    props = args or sorted(p[:-3] for p in os.listdir(os.path.join(VERIF, 'sa', 'props')) if re.match(r'C\d\d\.py$', p))
    fb = chk.load_facts(REPO)
    cands = []
    for pid in props:
        cands += candidates(fb, pid)
    bad = 0
    with ThreadPoolExecutor(max_workers=jobs) as ex:
        for (pid, nm, rel, line, names), rc, msg in ex.map(run_one, cands):
            tag = 'ok  ' if rc == 0 else 'skip' if rc == 'skip' else 'FAIL'
            if tag == 'FAIL':
                bad += 1
            print('%s %s %-55s exit=%s %s' % (tag, pid, nm[:55], rc, msg[:600] if tag != 'ok  ' else ''))
            sys.stdout.flush()
    print('%d renamed functions, %d not silent' % (len(cands), bad))
    return 1 if bad else 0


if __name__ == '__main__':
    sys.exit(main())
