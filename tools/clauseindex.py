#!/usr/bin/env python3
"""clauseindex.py [--write] - the clause index of DESIGN 9.13: obligations and rule kinds per clause from a quick run of every
property module on /repo.  With --write the table in DESIGN.md is replaced."""
import sys, re, importlib
sys.path.insert(0, '/verif')
from importlib.machinery import SourceFileLoader
chk = SourceFileLoader('chk', '/verif/check').load_module()
from sa import report
PROPS = ['C01', 'C02', 'C03', 'C04', 'C05', 'C06', 'C07', 'C08', 'C09', 'C10', 'C11', 'C12', 'C13', 'C14', 'C17', 'C18', 'C19']
fb = chk.load_facts('/repo')
rows, total = [], 0
for pid in PROPS:
    rep = report.Report(pid, 'quick', '/repo')
    importlib.import_module('sa.props.' + pid).run(fb, rep, 'quick')
    per = {}
    for o in rep.obs:
        c = per.setdefault(o['clause'], [0, set()])
        c[0] += 1
        c[1].update(re.findall(r'K\d+', o['rule'].split(' ')[0]))
    def key(c):
        m = re.match(r'C\d+\.(\d+)', c)
        return int(m.group(1)) if m else 0
    for c in sorted(per, key=key):
        rows.append('| %s | %s | %d | %s |' % (pid, c, per[c][0], ' '.join(sorted(per[c][1], key=lambda k: int(k[1:])))))
        total += per[c][0]
table = '| property | clause | obligations | rule kinds |\n|---|---|---|---|\n' + '\n'.join(rows) + '\n\nTotal: %d obligations on the quick tier.\n' % total
if '--write' in sys.argv:
    s = open('/verif/DESIGN.md').read()
    a = s.index('| property | clause | obligations | rule kinds |')
    b = s.index('obligations on the quick tier.\n', a) + len('obligations on the quick tier.\n')
    open('/verif/DESIGN.md', 'w').write(s[:a] + table + s[b:])
    print('DESIGN.md updated: %d clauses, %d obligations' % (len(rows), total))
else:
    print(table)
