#!/usr/bin/env python3
"""mkmeta.py <id> <property> <detected-by clause or '-'> <needs> <breaks>  : writes seeded/<id>/meta.json from confirm.log"""
import json, os, re, sys
sid, prop, det, needs, breaks = sys.argv[1:6]
d = os.path.join(os.path.dirname(os.path.dirname(os.path.abspath(__file__))), 'seeded', sid)
log = open(os.path.join(d, 'confirm.log')).read()
m = re.search(r'SUMMARY .*clean=(\d+) apply=(\d+) baseline=(\d+) patched=(\d+) check=(\d+)', log)
meta = {
    'id': sid, 'property': prop,
    'breaks': breaks,
    'needs_to_manifest': needs,
    'author': 'independent sub-agent given only the property text and a scratch worktree',
    'confirmed': {
        'how': 'tools/ingest_seed.sh in a fresh scratch worktree of /repo HEAD: demo/run.sh on the unchanged tree, git apply patch.diff, '
               'tools/baseline.sh (137 stable tests), demo/run.sh on the patched tree, ./check %s --repo <worktree>' % prop,
        'demo_exit_unchanged': int(m.group(1)), 'patch_applies': m.group(2) == '0', 'baseline_passes_with_patch': m.group(3) == '0',
        'demo_exit_patched': int(m.group(4)), 'check_exit_patched': int(m.group(5)),
    },
    'detected_by': det if det != '-' else False,
}
json.dump(meta, open(os.path.join(d, 'meta.json'), 'w'), indent=1)
print(json.dumps(meta['confirmed']))
