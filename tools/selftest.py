#!/usr/bin/env python3
"""Both-ways self-test of the rules: every seeded variant under selftest/mutants/<Cxx>/*.patch
(and seeded/<id>/patch.diff whose meta.json names the property) is applied to a scratch copy
of the sources outside /repo and /verif; the property's check must exit 1 there (exit 0 for
variants named *.benign.patch: behaviour-preserving refactorings must stay silent).

usage: selftest.py [Cxx ...] [--jobs N] [--list]
"""
import glob
import json
import os
import shutil
import subprocess
import sys
import tempfile
from concurrent.futures import ThreadPoolExecutor

VERIF = os.path.dirname(os.path.dirname(os.path.abspath(__file__)))
REPO = '/repo'


def variants(props):
    out = []
    for d in sorted(glob.glob(os.path.join(VERIF, 'selftest', 'mutants', 'C*'))):
        pid = os.path.basename(d)
        if props and pid not in props:
            continue
        for p in sorted(glob.glob(os.path.join(d, '*.patch'))):
            out.append((pid, p, 0 if p.endswith('.benign.patch') else 1))
    for d in sorted(glob.glob(os.path.join(VERIF, 'seeded', '*'))):
        mj = os.path.join(d, 'meta.json')
        pf = os.path.join(d, 'patch.diff')
        if not (os.path.exists(mj) and os.path.exists(pf)):
            continue
        with open(mj) as fh:
            meta = json.load(fh)
        pid = meta.get('property')
        if props and pid not in props:
            continue
        if meta.get('detected_by') is False:
            continue
        out.append((pid, pf, 1))
    return out


def run_one(v):
    pid, patch, want = v
    scratch = tempfile.mkdtemp(prefix='txmut_')
    try:
        for top in ('lib', 'app', 'test', 'cmake', 'CMakeLists.txt'):
            src = os.path.join(REPO, top)
            dst = os.path.join(scratch, top)
            if os.path.isdir(src):
                shutil.copytree(src, dst, symlinks=True)
            else:
                shutil.copy2(src, dst)
        for f in ('nndata.tbin.compr', 'texelbook.bin'):
            if os.path.exists(os.path.join(REPO, f)):
                shutil.copy2(os.path.join(REPO, f), os.path.join(scratch, f))
        r = subprocess.run(['patch', '-p1', '-s', '-d', scratch, '-i', patch], capture_output=True, text=True)
        if r.returncode != 0:
            return v, None, 'patch does not apply: ' + (r.stdout + r.stderr)[-300:]
        cmd = [os.path.join(VERIF, 'check'), pid, '--repo', scratch]
        if '.thorough.' in os.path.basename(patch):
            cmd += ['--tier', 'thorough']     # a variant that lives in code only other build configurations compile
        r = subprocess.run(cmd, capture_output=True, text=True, env=dict(os.environ, VERIF_NO_SELFTEST='1'))
        lines = [l for l in r.stdout.splitlines() if l.startswith(('violation:', 'ANALYSIS-BROKEN'))]
        return v, r.returncode, '; '.join(l[:200] for l in lines[:3])
    finally:
        shutil.rmtree(scratch, ignore_errors=True)


def main():
    args = [a for a in sys.argv[1:] if not a.startswith('--')]
    jobs = 4
    for i, a in enumerate(sys.argv):
        if a == '--jobs':
            jobs = int(sys.argv[i + 1])
            args = [x for x in args if x != sys.argv[i + 1]]
    vs = variants(set(args))
    if '--list' in sys.argv:
        for v in vs:
            print(v)
        return 0
    bad = 0
    with ThreadPoolExecutor(max_workers=jobs) as ex:
        for (pid, patch, want), rc, msg in ex.map(run_one, vs):
            ok = rc == want
            print('%s %-4s %-58s exit=%s want=%s  %s' % ('ok  ' if ok else 'MISS', pid, os.path.relpath(patch, VERIF)[-58:], rc, want, msg[:220]))
            bad += 0 if ok else 1
    print('%d variants, %d not as expected' % (len(vs), bad))
    return 1 if bad else 0


if __name__ == '__main__':
    sys.exit(main())
