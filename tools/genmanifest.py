#!/usr/bin/env python3
"""Regenerates MANIFEST.json from the per-property tables below (single source of truth)."""
import json, os
VERIF = os.path.dirname(os.path.dirname(os.path.abspath(__file__)))
import sys
sys.path.insert(0, VERIF)
from sa import manifest_data as M

checks = []
for pid in sorted(M.CLAIMED):
    c = M.CLAIMED[pid]
    checks.append({
        'property_id': pid,
        'quick_cmd': './check %s --tier quick' % pid,
        'thorough_cmd': './check %s --tier thorough' % pid,
        'evidence_file': '/verif/evidence/%s.json' % pid,
        'replay_cmd_template': './check %s --replay {path}' % pid,
        'engine': 'txsa+sa',
        'level_claimed': {'category': 'other', 'text': c['text'], 'design_ref': c['design_ref']},
        'level_note': c['note'],
        'technique': c['technique'],
    })
man = {
    'version': 1,
    'setup_cmd': './tools/setup.sh',
    'hooks': {'guard': 'TEXEL_VERIF', 'enable': 'no hooks: the analysis reads the unmodified sources (no -DTEXEL_VERIF code exists)',
              'baseline_off_cmd': '/verif/tools/baseline.sh', 'source_commits': [], 'add_only': True},
    'engines': [{'name': 'txsa+sa', 'path': '/verif/tool/txsa.cpp, /verif/sa/', 'serves_properties': sorted(M.CLAIMED),
                 'kind_free_text': 'custom static analysis: libTooling (clang 14) fact extractor emitting resolved expression trees + per-function CFGs; Python engines: path-sensitive typestate/flag dataflow, must-pass-through/dominance, whole-program call graph (CHA + handler-object sensitivity + lambda registration + thread roles), exception-flow, lock/atomic/confinement discipline, sibling/inverse table agreement, interval range obligations, compile-fail witnesses'}],
    'checks': checks,
    'not_applicable': [{'property_id': p, 'reason': r} for p, r in sorted(M.NOT_APPLICABLE.items())],
    'notes': M.NOTES,
}
with open(os.path.join(VERIF, 'MANIFEST.json'), 'w') as fh:
    json.dump(man, fh, indent=1)
print('MANIFEST.json: %d checks, %d not applicable' % (len(checks), len(man['not_applicable'])))
