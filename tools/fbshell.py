"""python3 -i tools/fbshell.py [repo]  -> fb loaded for exploration"""
import sys, os, importlib.util
VERIF = "/verif"
sys.path.insert(0, VERIF)
from importlib.machinery import SourceFileLoader
chk = SourceFileLoader('chk', os.path.join(VERIF, 'check')).load_module()
fb = chk.load_facts(sys.argv[1] if len(sys.argv) > 1 and not sys.argv[1].startswith('-') else '/repo')
from sa.core import *
