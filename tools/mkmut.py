#!/usr/bin/env python3
"""mkmut.py <Cxx> <name> <repo-relative file> [--benign]   (spec on stdin: OLD \n=====\n NEW)
Writes selftest/mutants/<Cxx>/<name>.patch (unified diff, -p1).  OLD must occur exactly once.
Several edits: separate specs with a line '#####' (optionally followed by another file name)."""
import difflib
import os
import sys

VERIF = os.path.dirname(os.path.dirname(os.path.abspath(__file__)))
pid, name, path = sys.argv[1:4]
benign = '--benign' in sys.argv
spec = sys.stdin.read()
parts = spec.split('\n#####')
out = ''
cur = path
texts = {}
for part in parts:
    if part is not parts[0]:
        first, _, rest = part.partition('\n')
        if first.strip():
            cur = first.strip()
        part = rest
    old, sep, new = part.partition('\n=====\n')
    if not sep:
        sys.exit('spec needs OLD\\n=====\\nNEW')
    if old.endswith('\n'):
        pass
    src = texts.get(cur)
    if src is None:
        src = open(os.path.join('/repo', cur)).read()
        texts[cur] = src
        texts[cur + '#orig'] = src
    new = new.rstrip('\n') + ('\n' if old.endswith('\n') else '')
    if src.count(old) != 1:
        sys.exit('OLD occurs %d times in %s' % (src.count(old), cur))
    texts[cur] = src.replace(old, new)
for f in [k for k in texts if not k.endswith('#orig')]:
    a = texts[f + '#orig'].splitlines(True)
    b = texts[f].splitlines(True)
    out += ''.join(difflib.unified_diff(a, b, 'a/' + f, 'b/' + f))
d = os.path.join(VERIF, 'selftest', 'mutants', pid)
os.makedirs(d, exist_ok=True)
fn = os.path.join(d, name + ('.benign' if benign else '') + '.patch')
open(fn, 'w').write(out)
print(fn, len(out.splitlines()), 'lines')
