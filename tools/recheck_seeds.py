#!/usr/bin/env python3
"""recheck_seeds.py - re-run each seeded change through today's rules (scratch copy outside /repo and /verif) and
record the exit code of the property's check in seeded/<id>/meta.json (confirmed.check_exit_patched)."""
import glob, json, os, sys
from concurrent.futures import ThreadPoolExecutor
sys.path.insert(0, os.path.dirname(os.path.abspath(__file__)))
import selftest

VERIF = selftest.VERIF
jobs = []
for d in sorted(glob.glob(os.path.join(VERIF, 'seeded', '*'))):
    mj = os.path.join(d, 'meta.json')
    if os.path.exists(mj):
        meta = json.load(open(mj))
        jobs.append((meta, mj, (meta['property'], os.path.join(d, 'patch.diff'), 1)))
with ThreadPoolExecutor(8) as ex:
    res = list(ex.map(lambda j: selftest.run_one(j[2]), jobs))
for (meta, mj, v), (_, rc, msg) in zip(jobs, res):
    meta['confirmed']['check_exit_patched'] = rc
    meta['confirmed']['check_first_report'] = msg[:300]
    json.dump(meta, open(mj, 'w'), indent=1)
    print('%-5s %-4s check exit %s  detected_by=%s' % (meta['id'], meta['property'], rc, meta['detected_by']))
