#!/usr/bin/env python3
"""obs.py <Cxx> [clause] [--repo DIR] - print every obligation a property's rules produce (debug aid)."""
import sys, importlib
sys.path.insert(0, '/verif')
from importlib.machinery import SourceFileLoader
chk = SourceFileLoader('chk', '/verif/check').load_module()
from sa import report
pid = sys.argv[1]
clause = sys.argv[2] if len(sys.argv) > 2 and not sys.argv[2].startswith('--') else None
repo = sys.argv[sys.argv.index('--repo') + 1] if '--repo' in sys.argv else '/repo'
fb = chk.load_facts(repo)
rep = report.Report(pid, 'quick', repo)
importlib.import_module('sa.props.' + pid).run(fb, rep, 'quick')
for o in rep.obs:
    if clause is None or o['clause'] == clause:
        print('%-9s %-6s %-28s %s  [%s] %s' % (o['verdict'], o['clause'], o['rule'], o['instance'][:150], o['site'], o['detail'][:int(__import__('os').environ.get('OBS_W', '120'))]))
for b in rep.brokens:
    print('BROKEN', b)
