#!/bin/sh
# Builds the libTooling fact extractor into /verif/build/txsa (offline; LLVM 14 from the image).
set -e
cd "$(dirname "$0")/.."
mkdir -p build
if [ build/txsa -nt tool/txsa.cpp ]; then exit 0; fi
clang++ $(llvm-config-14 --cxxflags) -fno-rtti -O1 tool/txsa.cpp -o build/txsa \
    /usr/lib/llvm-14/lib/libclang-cpp.so.14 /usr/lib/llvm-14/lib/libLLVM-14.so
