// txsa - fact extractor for the texel static-analysis framework.
//
// One run per translation unit.  Emits one JSON document with
//   * every function *defined in a file under --root* (template instantiations included,
//     dependent patterns only as headers): signature facts + an "event CFG"
//     (clang::CFG built with setAllAlwaysAdd + implicit destructors); every CFG element of an
//     interesting kind becomes one event, carrying the fully resolved expression tree;
//   * record layouts, enumerators, variables with static storage duration.
// Nothing in here knows about chess or about any property.
//
// Build: see /verif/tool/build.sh

#include "clang/AST/ASTConsumer.h"
#include "clang/AST/ASTContext.h"
#include "clang/AST/ParentMapContext.h"
#include "clang/AST/RecursiveASTVisitor.h"
#include "clang/AST/RecordLayout.h"
#include "clang/Analysis/CFG.h"
#include "clang/Frontend/CompilerInstance.h"
#include "clang/Frontend/FrontendAction.h"
#include "clang/Tooling/CommonOptionsParser.h"
#include "clang/Tooling/Tooling.h"
#include "llvm/Support/CommandLine.h"
#include "llvm/Support/JSON.h"
#include "llvm/Support/raw_ostream.h"
#include <map>
#include <set>
#include <string>

using namespace clang;
using namespace clang::tooling;

static llvm::cl::OptionCategory Cat("txsa options");
static llvm::cl::opt<std::string> OutFile("o", llvm::cl::desc("output JSON file"),
                                          llvm::cl::cat(Cat), llvm::cl::Required);
static llvm::cl::opt<std::string> Root("root", llvm::cl::desc("repository root"),
                                       llvm::cl::cat(Cat), llvm::cl::Required);
static llvm::cl::opt<bool> NoCfg("no-cfg", llvm::cl::desc("omit CFGs"), llvm::cl::cat(Cat));

namespace {

using llvm::json::OStream;

struct Ctx {
    ASTContext* AC = nullptr;
    SourceManager* SM = nullptr;
    PrintingPolicy PP{LangOptions()};
    std::string root;
};

static bool startsWith(const std::string& s, const std::string& p) {
    return s.compare(0, p.size(), p) == 0;
}

class Extractor : public RecursiveASTVisitor<Extractor> {
public:
    Extractor(Ctx& c, OStream& j) : C(c), J(j) {}

    bool shouldVisitTemplateInstantiations() const { return true; }
    bool shouldVisitImplicitCode() const { return false; }

    // ---------------------------------------------------------------- helpers

    std::string fileOf(SourceLocation L) {
        if (L.isInvalid()) return "";
        L = C.SM->getExpansionLoc(L);
        auto F = C.SM->getFilename(L);
        return F.str();
    }
    unsigned lineOf(SourceLocation L) {
        if (L.isInvalid()) return 0;
        return C.SM->getExpansionLineNumber(L);
    }
    unsigned colOf(SourceLocation L) {
        if (L.isInvalid()) return 0;
        return C.SM->getExpansionColumnNumber(L);
    }
    bool inRepo(SourceLocation L) {
        std::string f = fileOf(L);
        if (f.empty()) return false;
        if (!startsWith(f, C.root)) return false;
        std::string rel = f.substr(C.root.size());
        if (rel.find("/tb/gtb/") != std::string::npos) return false;
        if (rel.find("/gtest/") != std::string::npos) return false;
        return true;
    }
    std::string rel(const std::string& f) {
        if (startsWith(f, C.root)) {
            std::string r = f.substr(C.root.size());
            while (!r.empty() && r[0] == '/') r = r.substr(1);
            return r;
        }
        return f;
    }
    std::string typeStr(QualType T) {
        if (T.isNull()) return "";
        return T.getAsString(C.PP);
    }
    std::string canonStr(QualType T) {
        if (T.isNull()) return "";
        return T.getCanonicalType().getAsString(C.PP);
    }

    // Qualified name; unlike clang's printer it also qualifies entities declared inside a
    // function body (local classes such as the per-call-site `Handler` classes) with the
    // enclosing function, so that two local classes of the same name stay distinct.
    std::string ctxName(const DeclContext* DC) {
        if (!DC || DC->isTranslationUnit()) return "";
        if (auto* ND = dyn_cast<NamespaceDecl>(DC)) {
            std::string p = ctxName(ND->getDeclContext());
            if (ND->isAnonymousNamespace()) return p;
            return p + ND->getNameAsString() + "::";
        }
        if (auto* RD = dyn_cast<CXXRecordDecl>(DC)) {
            if (RD->isLambda()) return ctxName(RD->getDeclContext());
            std::string s;
            llvm::raw_string_ostream os(s);
            RD->getNameForDiagnostic(os, C.PP, false);
            os.flush();
            if (s.empty() || s[0] == '(') s = "(anonymous)";
            return ctxName(RD->getDeclContext()) + s + "::";
        }
        if (auto* FD = dyn_cast<FunctionDecl>(DC)) {
            std::string s;
            llvm::raw_string_ostream os(s);
            FD->getNameForDiagnostic(os, C.PP, false);
            os.flush();
            return ctxName(FD->getDeclContext()) + s + "()::";
        }
        return ctxName(DC->getParent());
    }

    std::string qualName(const NamedDecl* D) {
        std::string s;
        llvm::raw_string_ostream os(s);
        D->getNameForDiagnostic(os, C.PP, false);
        os.flush();
        return ctxName(D->getDeclContext()) + s;
    }

    std::string recOfType(QualType T) {
        if (T.isNull()) return "";
        T = T.getNonReferenceType();
        while (T->isPointerType()) T = T->getPointeeType();
        if (const CXXRecordDecl* RD = T->getAsCXXRecordDecl())
            if (!RD->isLambda()) return qualName(RD);
        return "";
    }

    std::string funcKey(const FunctionDecl* FD) {
        if (!FD) return "";
        FD = FD->getCanonicalDecl();
        auto it = keyCache.find(FD);
        if (it != keyCache.end()) return it->second;
        std::string k;
        if (auto* MD = dyn_cast<CXXMethodDecl>(FD)) {
            const CXXRecordDecl* RD = MD->getParent();
            if (RD && RD->isLambda()) {
                // lambda call operator (or conversion): name it after the enclosing function
                const DeclContext* DC = RD->getDeclContext();
                while (DC && !isa<FunctionDecl>(DC) && !DC->isTranslationUnit())
                    DC = DC->getParent();
                std::string parent = "<file>";
                if (DC && isa<FunctionDecl>(DC)) parent = funcKey(cast<FunctionDecl>(DC));
                std::string f = rel(fileOf(RD->getBeginLoc()));
                auto slash = f.rfind('/');
                if (slash != std::string::npos) f = f.substr(slash + 1);
                k = parent + "::(lambda@" + f + ":" + std::to_string(lineOf(RD->getBeginLoc())) +
                    ":" + std::to_string(colOf(RD->getBeginLoc())) + ")";
                if (!isa<CXXConversionDecl>(MD) && MD->getOverloadedOperator() == OO_Call) {
                    keyCache[FD] = k;
                    return k;
                }
                k += "::" + (isa<CXXConstructorDecl>(MD) ? std::string("<closure-ctor>") : MD->getNameAsString());
                keyCache[FD] = k;
                return k;
            }
        }
        k = qualName(FD);
        k += "(";
        bool first = true;
        for (auto* P : FD->parameters()) {
            if (!first) k += ", ";
            first = false;
            k += typeStr(P->getType());
        }
        if (FD->isVariadic()) k += first ? "..." : ", ...";
        k += ")";
        if (auto* MD = dyn_cast<CXXMethodDecl>(FD))
            if (MD->isConst()) k += " const";
        keyCache[FD] = k;
        return k;
    }

    int varId(const VarDecl* V) {
        auto it = varIds.find(V);
        if (it != varIds.end()) return it->second;
        int id = (int)varIds.size() + 1;
        varIds[V] = id;
        return id;
    }

    // ---------------------------------------------------------------- expression trees

    void emitConst(const Expr* E) {
        if (!E || E->isValueDependent() || E->isTypeDependent()) return;
        QualType T = E->getType();
        if (T.isNull()) return;
        if (!(T->isIntegralOrEnumerationType())) return;
        Expr::EvalResult R;
        if (E->EvaluateAsInt(R, *C.AC, Expr::SE_NoSideEffects)) {
            llvm::APSInt V = R.Val.getInt();
            if (V.isSigned() || V.getActiveBits() <= 63)
                J.attribute("cv", V.getExtValue());
            else {
                J.attribute("cv", (int64_t)V.getZExtValue());
                J.attribute("cvu", llvm::toString(V, 10));
            }
        }
    }

    void tree(const Stmt* S, int depth = 0) {
        if (!S) { J.value(nullptr); return; }
        if (depth > 60) { J.object([&] { J.attribute("k", "deep"); }); return; }
        // transparent wrappers
        if (auto* E = dyn_cast<ParenExpr>(S)) return tree(E->getSubExpr(), depth);
        if (auto* E = dyn_cast<ExprWithCleanups>(S)) return tree(E->getSubExpr(), depth);
        if (auto* E = dyn_cast<MaterializeTemporaryExpr>(S)) return tree(E->getSubExpr(), depth);
        if (auto* E = dyn_cast<CXXBindTemporaryExpr>(S)) return tree(E->getSubExpr(), depth);
        if (auto* E = dyn_cast<ConstantExpr>(S)) return tree(E->getSubExpr(), depth);
        if (auto* E = dyn_cast<CXXDefaultArgExpr>(S)) { pendingDefArg = true; return tree(E->getExpr(), depth); }
        if (auto* E = dyn_cast<CXXDefaultInitExpr>(S)) return tree(E->getExpr(), depth);
        if (auto* E = dyn_cast<SubstNonTypeTemplateParmExpr>(S)) return tree(E->getReplacement(), depth);
        if (auto* E = dyn_cast<ImplicitCastExpr>(S)) {
            CastKind ck = E->getCastKind();
            if (ck == CK_UserDefinedConversion || ck == CK_ConstructorConversion)
                return tree(E->getSubExpr(), depth);
            if (ck == CK_IntegralCast || ck == CK_IntegralToBoolean || ck == CK_IntegralToFloating ||
                ck == CK_FloatingToIntegral || ck == CK_FloatingCast) {
                J.object([&] {
                    if (pendingDefArg) { J.attribute("defarg", 1); pendingDefArg = false; }
                    J.attribute("k", "cast");
                    J.attribute("imp", 1);
                    J.attribute("t", canonStr(E->getType()));
                    emitConst(E);
                    J.attributeBegin("e"); tree(E->getSubExpr(), depth + 1); J.attributeEnd();
                });
                return;
            }
            return tree(E->getSubExpr(), depth);
        }
        if (auto* E = dyn_cast<CXXFunctionalCastExpr>(S)) {
            if (isa<CXXConstructExpr>(E->getSubExpr()->IgnoreImplicit()))
                return tree(E->getSubExpr(), depth);
        }

        J.object([&] {
            if (pendingDefArg) { J.attribute("defarg", 1); pendingDefArg = false; }
            if (auto* E = dyn_cast<Expr>(S)) {
                if (isa<CXXScalarValueInitExpr>(E) || isa<ImplicitValueInitExpr>(E)) {
                    if (E->getType()->isPointerType() || E->getType()->isNullPtrType()) {
                        J.attribute("k", "null");
                    } else {
                        J.attribute("k", "int");
                        J.attribute("cv", 0);
                        J.attribute("t", canonStr(E->getType()));
                    }
                    return;
                }
                // literals
                if (auto* L = dyn_cast<IntegerLiteral>(E)) {
                    J.attribute("k", "int");
                    emitConst(L);
                    J.attribute("t", canonStr(L->getType()));
                    return;
                }
                if (auto* L = dyn_cast<CXXBoolLiteralExpr>(E)) {
                    J.attribute("k", "int");
                    J.attribute("cv", L->getValue() ? 1 : 0);
                    J.attribute("t", "bool");
                    return;
                }
                if (auto* L = dyn_cast<CharacterLiteral>(E)) {
                    J.attribute("k", "int");
                    J.attribute("cv", (int64_t)L->getValue());
                    J.attribute("t", "char");
                    return;
                }
                if (auto* L = dyn_cast<FloatingLiteral>(E)) {
                    J.attribute("k", "flt");
                    J.attribute("v", L->getValueAsApproximateDouble());
                    return;
                }
                if (auto* L = dyn_cast<StringLiteral>(E)) {
                    J.attribute("k", "str");
                    if (L->getCharByteWidth() == 1) J.attribute("v", L->getBytes());
                    return;
                }
                if (isa<CXXNullPtrLiteralExpr>(E) || isa<GNUNullExpr>(E)) {
                    J.attribute("k", "null");
                    return;
                }
                if (isa<CXXThisExpr>(E)) {
                    J.attribute("k", "this");
                    return;
                }
                if (auto* D = dyn_cast<DeclRefExpr>(E)) {
                    const ValueDecl* VD = D->getDecl();
                    if (auto* V = dyn_cast<VarDecl>(VD)) {
                        J.attribute("k", "var");
                        J.attribute("n", V->getNameAsString());
                        const char* vk = "local";
                        if (isa<ParmVarDecl>(V)) vk = "param";
                        else if (V->isStaticLocal()) vk = "slocal";
                        else if (V->isStaticDataMember()) vk = "smember";
                        else if (V->hasGlobalStorage()) vk = "global";
                        J.attribute("vk", vk);
                        if (V->hasGlobalStorage() && !V->isStaticLocal())
                            J.attribute("q", qualName(V));
                        else
                            J.attribute("id", varId(V));
                        J.attribute("t", typeStr(V->getType()));
                        { std::string rc = recOfType(V->getType()); if (!rc.empty()) J.attribute("rc", rc); }
                        emitConst(E);
                        return;
                    }
                    if (auto* EC = dyn_cast<EnumConstantDecl>(VD)) {
                        J.attribute("k", "int");
                        J.attribute("n", qualName(EC));
                        J.attribute("cv", EC->getInitVal().getExtValue());
                        J.attribute("t", canonStr(E->getType()));
                        return;
                    }
                    if (auto* F = dyn_cast<FunctionDecl>(VD)) {
                        J.attribute("k", "fref");
                        J.attribute("f", funcKey(F));
                        return;
                    }
                    if (auto* B = dyn_cast<BindingDecl>(VD)) {
                        J.attribute("k", "var");
                        J.attribute("n", B->getNameAsString());
                        J.attribute("vk", "local");
                        return;
                    }
                    J.attribute("k", "declref");
                    J.attribute("n", VD->getNameAsString());
                    emitConst(E);
                    return;
                }
                if (auto* M = dyn_cast<MemberExpr>(E)) {
                    const ValueDecl* VD = M->getMemberDecl();
                    if (auto* F = dyn_cast<FieldDecl>(VD)) {
                        J.attribute("k", "mem");
                        J.attribute("f", qualName(F));
                        J.attribute("t", typeStr(F->getType()));
                        { std::string rc = recOfType(F->getType()); if (!rc.empty()) J.attribute("rc", rc); }
                    } else if (auto* V = dyn_cast<VarDecl>(VD)) {
                        J.attribute("k", "var");
                        J.attribute("n", V->getNameAsString());
                        J.attribute("vk", "smember");
                        J.attribute("q", qualName(V));
                        J.attribute("t", typeStr(V->getType()));
                        emitConst(E);
                        return;
                    } else if (auto* FD = dyn_cast<FunctionDecl>(VD)) {
                        J.attribute("k", "mref");
                        J.attribute("f", funcKey(FD));
                    } else if (auto* EC = dyn_cast<EnumConstantDecl>(VD)) {
                        J.attribute("k", "int");
                        J.attribute("n", qualName(EC));
                        J.attribute("cv", EC->getInitVal().getExtValue());
                        return;
                    } else {
                        J.attribute("k", "mem");
                        J.attribute("f", VD->getNameAsString());
                    }
                    if (M->isArrow()) J.attribute("arrow", 1);
                    emitConst(E);
                    J.attributeBegin("b"); tree(M->getBase(), depth + 1); J.attributeEnd();
                    return;
                }
                if (auto* L = dyn_cast<LambdaExpr>(E)) {
                    J.attribute("k", "lambda");
                    J.attribute("f", funcKey(L->getCallOperator()));
                    J.attributeArray("caps", [&] {
                        for (auto& cap : L->captures()) {
                            J.object([&] {
                                if (cap.capturesThis()) J.attribute("this", 1);
                                else if (cap.capturesVariable()) {
                                    J.attribute("n", cap.getCapturedVar()->getNameAsString());
                                    if (auto* V = dyn_cast<VarDecl>(cap.getCapturedVar()))
                                        J.attribute("id", varId(V));
                                }
                                J.attribute("byref", cap.getCaptureKind() == LCK_ByRef ? 1 : 0);
                            });
                        }
                    });
                    return;
                }
                if (auto* CE = dyn_cast<CXXConstructExpr>(E)) {
                    J.attribute("k", "ctor");
                    { std::string rc = recOfType(CE->getType());
                      J.attribute("cls", rc.empty() ? typeStr(CE->getType().getUnqualifiedType()) : rc); }
                    J.attribute("f", funcKey(CE->getConstructor()));
                    J.attribute("n", qualName(CE->getConstructor()));
                    J.attribute("ln", lineOf(CE->getBeginLoc()));
                    if (CE->getConstructor()->isCopyOrMoveConstructor()) J.attribute("copy", 1);
                    J.attributeArray("args", [&] {
                        for (auto* A : CE->arguments()) tree(A, depth + 1);
                    });
                    return;
                }
                if (auto* CE = dyn_cast<CallExpr>(E)) {
                    J.attribute("k", "call");
                    J.attribute("ln", lineOf(CE->getBeginLoc()));
                    J.attribute("t", typeStr(CE->getType()));
                    const FunctionDecl* FD = CE->getDirectCallee();
                    unsigned firstArg = 0;
                    if (FD) {
                        J.attribute("f", funcKey(FD));
                        J.attribute("n", qualName(FD));
                        if (inRepo(FD->getLocation())) J.attribute("repo", 1);
                        if (auto* MD = dyn_cast<CXXMethodDecl>(FD)) {
                            if (MD->isVirtual()) J.attribute("virt", 1);
                            if (MD->isConst()) J.attribute("cmeth", 1);
                            if (MD->isStatic()) J.attribute("smeth", 1);
                        }
                    }
                    emitConst(E);
                    if (auto* MC = dyn_cast<CXXMemberCallExpr>(CE)) {
                        J.attributeBegin("recv");
                        tree(MC->getImplicitObjectArgument(), depth + 1);
                        J.attributeEnd();
                        if (auto* ME = dyn_cast<MemberExpr>(MC->getCallee()->IgnoreParens())) {
                            if (ME->isArrow()) J.attribute("arrow", 1);
                            if (ME->hasQualifier()) J.attribute("qualified", 1);
                        }
                    } else if (auto* OC = dyn_cast<CXXOperatorCallExpr>(CE)) {
                        J.attribute("op", getOperatorSpelling(OC->getOperator()));
                        if (FD && isa<CXXMethodDecl>(FD) && OC->getNumArgs() > 0) {
                            J.attributeBegin("recv"); tree(OC->getArg(0), depth + 1); J.attributeEnd();
                            firstArg = 1;
                        }
                    } else if (!FD) {
                        J.attributeBegin("fn"); tree(CE->getCallee(), depth + 1); J.attributeEnd();
                    }
                    if (FD) {
                        bool any = false;
                        for (unsigned i = firstArg; i < CE->getNumArgs(); i++) {
                            unsigned pi = i - firstArg;
                            if (pi < FD->getNumParams() && mutRef(FD->getParamDecl(pi)->getType())) any = true;
                        }
                        if (any)
                            J.attributeArray("mutargs", [&] {
                                for (unsigned i = firstArg; i < CE->getNumArgs(); i++) {
                                    unsigned pi = i - firstArg;
                                    if (pi < FD->getNumParams() && mutRef(FD->getParamDecl(pi)->getType()))
                                        J.value((int64_t)pi);
                                }
                            });
                    }
                    J.attributeArray("args", [&] {
                        for (unsigned i = firstArg; i < CE->getNumArgs(); i++)
                            tree(CE->getArg(i), depth + 1);
                    });
                    return;
                }
                if (auto* B = dyn_cast<BinaryOperator>(E)) {
                    if (B->isAssignmentOp()) {
                        J.attribute("k", "asg");
                        J.attribute("op", B->getOpcodeStr());
                        J.attribute("ln", lineOf(B->getOperatorLoc()));
                    } else {
                        J.attribute("k", "bin");
                        J.attribute("op", B->getOpcodeStr());
                    }
                    J.attribute("t", canonStr(B->getType()));
                    if (auto* CA = dyn_cast<CompoundAssignOperator>(B))
                        J.attribute("ct", canonStr(CA->getComputationResultType()));
                    emitConst(E);
                    J.attributeBegin("l"); tree(B->getLHS(), depth + 1); J.attributeEnd();
                    J.attributeBegin("r"); tree(B->getRHS(), depth + 1); J.attributeEnd();
                    return;
                }
                if (auto* U = dyn_cast<UnaryOperator>(E)) {
                    if (U->isIncrementDecrementOp()) {
                        J.attribute("k", "incdec");
                        J.attribute("op", U->isIncrementOp() ? "++" : "--");
                        J.attribute("post", U->isPostfix() ? 1 : 0);
                        J.attribute("ln", lineOf(U->getOperatorLoc()));
                    } else {
                        J.attribute("k", "un");
                        J.attribute("op", UnaryOperator::getOpcodeStr(U->getOpcode()));
                    }
                    J.attribute("t", canonStr(U->getType()));
                    emitConst(E);
                    J.attributeBegin("e"); tree(U->getSubExpr(), depth + 1); J.attributeEnd();
                    return;
                }
                if (auto* Q = dyn_cast<ConditionalOperator>(E)) {
                    J.attribute("k", "cond");
                    J.attribute("t", canonStr(Q->getType()));
                    emitConst(E);
                    J.attributeBegin("c"); tree(Q->getCond(), depth + 1); J.attributeEnd();
                    J.attributeBegin("a"); tree(Q->getTrueExpr(), depth + 1); J.attributeEnd();
                    J.attributeBegin("b"); tree(Q->getFalseExpr(), depth + 1); J.attributeEnd();
                    return;
                }
                if (auto* A = dyn_cast<ArraySubscriptExpr>(E)) {
                    J.attribute("k", "idx");
                    J.attribute("t", typeStr(A->getType()));
                    emitConst(E);
                    J.attributeBegin("b"); tree(A->getBase(), depth + 1); J.attributeEnd();
                    J.attributeBegin("i"); tree(A->getIdx(), depth + 1); J.attributeEnd();
                    return;
                }
                if (auto* CA = dyn_cast<ExplicitCastExpr>(E)) {
                    J.attribute("k", "cast");
                    J.attribute("t", canonStr(CA->getType()));
                    emitConst(E);
                    J.attributeBegin("e"); tree(CA->getSubExpr(), depth + 1); J.attributeEnd();
                    return;
                }
                if (auto* N = dyn_cast<CXXNewExpr>(E)) {
                    J.attribute("k", "new");
                    J.attribute("t", typeStr(N->getAllocatedType()));
                    if (N->getInitializer()) {
                        J.attributeBegin("init"); tree(N->getInitializer(), depth + 1); J.attributeEnd();
                    }
                    return;
                }
                if (auto* D = dyn_cast<CXXDeleteExpr>(E)) {
                    J.attribute("k", "delete");
                    J.attributeBegin("e"); tree(D->getArgument(), depth + 1); J.attributeEnd();
                    return;
                }
                if (auto* T = dyn_cast<CXXThrowExpr>(E)) {
                    J.attribute("k", "throw");
                    J.attribute("ln", lineOf(T->getThrowLoc()));
                    if (T->getSubExpr()) {
                        J.attribute("t", canonStr(T->getSubExpr()->getType()));
                        J.attributeBegin("e"); tree(T->getSubExpr(), depth + 1); J.attributeEnd();
                    } else
                        J.attribute("rethrow", 1);
                    return;
                }
                if (auto* IL = dyn_cast<InitListExpr>(E)) {
                    J.attribute("k", "init");
                    unsigned n = IL->getNumInits();
                    J.attribute("n", n);
                    J.attributeArray("elems", [&] {
                        for (unsigned i = 0; i < n && i < 4096; i++) tree(IL->getInit(i), depth + 1);
                    });
                    return;
                }
                if (auto* SZ = dyn_cast<UnaryExprOrTypeTraitExpr>(E)) {
                    J.attribute("k", "sizeof");
                    emitConst(E);
                    return;
                }
                if (auto* UL = dyn_cast<UnresolvedLookupExpr>(E)) {
                    J.attribute("k", "unresolved");
                    J.attribute("n", UL->getName().getAsString());
                    return;
                }
                if (auto* DM = dyn_cast<CXXDependentScopeMemberExpr>(E)) {
                    J.attribute("k", "depmem");
                    J.attribute("n", DM->getMember().getAsString());
                    return;
                }
                // generic expression
                J.attribute("k", "other");
                J.attribute("c", E->getStmtClassName());
                emitConst(E);
                J.attributeArray("ch", [&] {
                    for (const Stmt* ch : E->children()) tree(ch, depth + 1);
                });
                return;
            }
            // statements
            if (auto* R = dyn_cast<ReturnStmt>(S)) {
                J.attribute("k", "ret");
                J.attribute("ln", lineOf(R->getReturnLoc()));
                if (R->getRetValue()) {
                    J.attributeBegin("e"); tree(R->getRetValue(), depth + 1); J.attributeEnd();
                }
                return;
            }
            if (auto* D = dyn_cast<DeclStmt>(S)) {
                J.attribute("k", "decl");
                J.attribute("ln", lineOf(D->getBeginLoc()));
                J.attributeArray("vars", [&] {
                    for (auto* d : D->decls()) {
                        if (auto* V = dyn_cast<VarDecl>(d)) {
                            J.object([&] {
                                J.attribute("n", V->getNameAsString());
                                J.attribute("id", varId(V));
                                J.attribute("t", typeStr(V->getType()));
                                J.attribute("ct", canonStr(V->getType()));
                                { std::string rc = recOfType(V->getType()); if (!rc.empty()) J.attribute("rc", rc); }
                                if (V->isStaticLocal()) J.attribute("static", 1);
                                if (V->getInit()) {
                                    J.attributeBegin("init"); tree(V->getInit(), depth + 1); J.attributeEnd();
                                }
                            });
                        }
                    }
                });
                return;
            }
            J.attribute("k", "stmt");
            J.attribute("c", S->getStmtClassName());
        });
    }

    static bool mutRef(QualType T) {
        if (!T->isReferenceType()) return false;
        QualType P = T->getPointeeType();
        return !P.isConstQualified();
    }

    const char* argKind(const FunctionDecl* FD, const CallExpr* CE, const Expr* cur) {
        if (!FD) return "arg";
        unsigned off = 0;
        if (isa<CXXOperatorCallExpr>(CE) && isa<CXXMethodDecl>(FD)) off = 1;
        for (unsigned i = 0; i < CE->getNumArgs(); i++) {
            if (CE->getArg(i)->IgnoreParenImpCasts() == cur->IgnoreParenImpCasts()) {
                if (i < off) return "arg";
                unsigned pi = i - off;
                if (pi < FD->getNumParams())
                    return mutRef(FD->getParamDecl(pi)->getType()) ? "mutarg" : "arg";
                return "arg";
            }
        }
        return "arg";
    }

    // is the value of expression E consumed by an enclosing expression?
    bool valueUsed(const Expr* E) {
        const Stmt* cur = E;
        for (int guard = 0; guard < 6; guard++) {
            auto parents = C.AC->getParents(*cur);
            if (parents.empty()) return false;
            const Stmt* P = parents[0].get<Stmt>();
            if (!P) return parents[0].get<Decl>() != nullptr;   // initialiser of a declaration
            if (isa<ParenExpr>(P) || isa<ExprWithCleanups>(P)) { cur = P; continue; }
            if (auto* F = dyn_cast<ForStmt>(P)) return F->getCond() == cur;
            if (isa<CompoundStmt>(P)) return false;
            if (auto* I = dyn_cast<IfStmt>(P)) return I->getCond() == cur;
            if (auto* W = dyn_cast<WhileStmt>(P)) return W->getCond() == cur;
            if (isa<Expr>(P)) {
                if (auto* B = dyn_cast<BinaryOperator>(P))
                    if (B->getOpcode() == BO_Comma && B->getLHS() == cur) return false;
                return true;
            }
            return !isa<CaseStmt>(P) && !isa<DefaultStmt>(P) && !isa<LabelStmt>(P) && !isa<DoStmt>(P) &&
                   !isa<CXXForRangeStmt>(P);
        }
        return true;
    }

    // access kind of an lvalue expression, from its parent context
    const char* accessKind(const Expr* E) {
        const Stmt* cur = E;
        for (int guard = 0; guard < 12; guard++) {
            auto parents = C.AC->getParents(*cur);
            if (parents.empty()) return "ref";
            const Stmt* P = parents[0].get<Stmt>();
            if (!P) {
                return "ref";
            }
            if (isa<ParenExpr>(P)) { cur = P; continue; }
            if (auto* IC = dyn_cast<ImplicitCastExpr>(P)) {
                if (IC->getCastKind() == CK_LValueToRValue) return "r";
                if (IC->getCastKind() == CK_NoOp || IC->getCastKind() == CK_ArrayToPointerDecay ||
                    IC->getCastKind() == CK_DerivedToBase || IC->getCastKind() == CK_UncheckedDerivedToBase) {
                    cur = P; continue;
                }
                return "ref";
            }
            if (auto* B = dyn_cast<BinaryOperator>(P)) {
                if (B->isAssignmentOp() && B->getLHS()->IgnoreParens() == cur)
                    return B->getOpcode() == BO_Assign ? "w" : (valueUsed(B) ? "rwu" : "rw");
                return "ref";
            }
            if (auto* U = dyn_cast<UnaryOperator>(P)) {
                if (U->isIncrementDecrementOp()) return valueUsed(U) ? "rwu" : "rw";
                if (U->getOpcode() == UO_AddrOf) return "addr";
                return "ref";
            }
            if (auto* M = dyn_cast<MemberExpr>(P)) {
                // field of a field (a.b): the kind of the outer access decides; through a pointer
                // member (p->b) the pointer itself is only read
                if (M->isArrow()) return "r";
                if (auto* MD = dyn_cast<CXXMethodDecl>(M->getMemberDecl())) {
                    // a.method(...): element accessors hand out a reference whose use decides
                    std::string nm = MD->getNameAsString();
                    bool accessor = MD->getReturnType()->isLValueReferenceType() &&
                                    (nm == "operator[]" || nm == "at" || nm == "front" || nm == "back");
                    if (accessor) {
                        auto pp = C.AC->getParents(*P);
                        if (!pp.empty() && pp[0].get<Stmt>()) { cur = pp[0].get<Stmt>(); continue; }
                    }
                    return MD->isConst() ? "cmcall" : "mcall";
                }
                cur = P; continue;
            }
            if (auto* AS = dyn_cast<ArraySubscriptExpr>(P)) {
                if (AS->getIdx()->IgnoreParenImpCasts() == cast<Expr>(cur)->IgnoreParenImpCasts()) return "r";
                // element of an array member: the kind of the element access decides; indexing
                // through a pointer only reads the pointer
                if (cast<Expr>(cur)->getType()->isPointerType()) return "r";
                cur = P; continue;
            }
            if (auto* MC = dyn_cast<CXXMemberCallExpr>(P)) {
                if (MC->getImplicitObjectArgument() &&
                    MC->getImplicitObjectArgument()->IgnoreParenImpCasts() == cast<Expr>(cur)->IgnoreParenImpCasts()) {
                    if (auto* MD = MC->getMethodDecl()) return MD->isConst() ? "cmcall" : "mcall";
                    return "mcall";
                }
                return argKind(MC->getDirectCallee(), MC, cast<Expr>(cur));
            }
            if (auto* OC = dyn_cast<CXXOperatorCallExpr>(P)) {
                if (OC->getNumArgs() > 0 && OC->getArg(0)->IgnoreParenImpCasts() == cast<Expr>(cur)->IgnoreParenImpCasts() &&
                    OC->getOperator() == OO_Subscript && OC->getType()->isLValueReferenceType() == false && OC->isLValue()) {
                    // container[i] handing out a reference to an element: the use of the element decides
                    cur = P; continue;
                }
                if (OC->getNumArgs() > 0 && OC->getArg(0)->IgnoreParenImpCasts() == cast<Expr>(cur)->IgnoreParenImpCasts()) {
                    if (auto* FD = OC->getDirectCallee())
                        if (auto* MD = dyn_cast<CXXMethodDecl>(FD)) return MD->isConst() ? "cmcall" : "mcall";
                    return "mcall";
                }
                return argKind(OC->getDirectCallee(), OC, cast<Expr>(cur));
            }
            if (auto* CE = dyn_cast<CallExpr>(P)) return argKind(CE->getDirectCallee(), CE, cast<Expr>(cur));
            if (auto* CE = dyn_cast<CXXConstructExpr>(P)) {
                const FunctionDecl* FD = CE->getConstructor();
                for (unsigned i = 0; i < CE->getNumArgs(); i++)
                    if (CE->getArg(i)->IgnoreParenImpCasts() == cast<Expr>(cur)->IgnoreParenImpCasts() && FD && i < FD->getNumParams())
                        return mutRef(FD->getParamDecl(i)->getType()) ? "mutarg" : "arg";
                return "arg";
            }
            return "ref";
        }
        return "ref";
    }

    // ---------------------------------------------------------------- CFG

    bool interesting(const Stmt* S) {
        if (isa<CallExpr>(S) || isa<CXXConstructExpr>(S) || isa<CXXNewExpr>(S) || isa<CXXDeleteExpr>(S) ||
            isa<CXXThrowExpr>(S) || isa<ReturnStmt>(S) || isa<DeclStmt>(S) || isa<LambdaExpr>(S))
            return true;
        if (auto* B = dyn_cast<BinaryOperator>(S)) return B->isAssignmentOp();
        if (auto* U = dyn_cast<UnaryOperator>(S)) return U->isIncrementDecrementOp();
        if (auto* M = dyn_cast<MemberExpr>(S)) return isa<FieldDecl>(M->getMemberDecl()) ||
                                                     isa<VarDecl>(M->getMemberDecl());
        if (auto* D = dyn_cast<DeclRefExpr>(S)) {
            if (auto* V = dyn_cast<VarDecl>(D->getDecl()))
                return V->hasGlobalStorage();
            return false;
        }
        if (isa<ArraySubscriptExpr>(S)) return true;
        return false;
    }

    void emitCFG(const FunctionDecl* FD) {
        CFG::BuildOptions BO;
        BO.setAllAlwaysAdd();
        BO.AddImplicitDtors = true;
        BO.AddTemporaryDtors = false;
        BO.AddInitializers = true;
        BO.AddEHEdges = false;
        BO.PruneTriviallyFalseEdges = true;
        std::unique_ptr<CFG> cfg = CFG::buildCFG(FD, FD->getBody(), C.AC, BO);
        if (!cfg) {
            J.attribute("cfg_failed", 1);
            return;
        }
        J.attribute("entry", cfg->getEntry().getBlockID());
        J.attribute("exit", cfg->getExit().getBlockID());
        J.attributeArray("blocks", [&] {
            for (const CFGBlock* B : *cfg) {
                J.object([&] {
                    J.attribute("id", B->getBlockID());
                    J.attributeArray("succ", [&] {
                        for (auto I = B->succ_begin(); I != B->succ_end(); ++I) {
                            const CFGBlock* Sx = I->getReachableBlock();
                            if (Sx) J.value((int64_t)Sx->getBlockID());
                            else if (I->getPossiblyUnreachableBlock())
                                J.value(-(int64_t)I->getPossiblyUnreachableBlock()->getBlockID() - 1);
                            else J.value(nullptr);
                        }
                    });
                    if (B->hasNoReturnElement()) J.attribute("noreturn", 1);
                    if (const Stmt* L = B->getLabel()) {
                        if (auto* CS = dyn_cast<CaseStmt>(L)) {
                            J.attributeBegin("label");
                            J.object([&] {
                                J.attribute("k", "case");
                                Expr::EvalResult R;
                                if (CS->getLHS() && !CS->getLHS()->isValueDependent() &&
                                    CS->getLHS()->EvaluateAsInt(R, *C.AC))
                                    J.attribute("v", R.Val.getInt().getExtValue());
                                if (CS->getRHS()) J.attribute("range", 1);
                                J.attribute("ln", lineOf(CS->getBeginLoc()));
                            });
                            J.attributeEnd();
                        } else if (isa<DefaultStmt>(L)) {
                            J.attributeBegin("label");
                            J.object([&] { J.attribute("k", "default"); });
                            J.attributeEnd();
                        } else if (isa<CXXCatchStmt>(L)) {
                            auto* CS = cast<CXXCatchStmt>(L);
                            J.attributeBegin("label");
                            J.object([&] {
                                J.attribute("k", "catch");
                                J.attribute("t", CS->getExceptionDecl()
                                                     ? canonStr(CS->getCaughtType())
                                                     : std::string("..."));
                                J.attribute("ln", lineOf(CS->getBeginLoc()));
                            });
                            J.attributeEnd();
                        }
                    }
                    if (const Stmt* T = B->getTerminatorStmt()) {
                        J.attributeBegin("term");
                        J.object([&] {
                            J.attribute("c", T->getStmtClassName());
                            J.attribute("ln", lineOf(T->getBeginLoc()));
                            if (auto* BO2 = dyn_cast<BinaryOperator>(T)) J.attribute("op", BO2->getOpcodeStr());
                            if (const Stmt* Cn = B->getTerminatorCondition(false)) {
                                J.attributeBegin("cond"); tree(Cn); J.attributeEnd();
                            }
                            if (auto* TS = dyn_cast<CXXTryStmt>(T)) {
                                J.attributeArray("handlers", [&] {
                                    for (unsigned i = 0; i < TS->getNumHandlers(); i++) {
                                        auto* H = TS->getHandler(i);
                                        J.value(H->getExceptionDecl() ? canonStr(H->getCaughtType())
                                                                      : std::string("..."));
                                    }
                                });
                            }
                        });
                        J.attributeEnd();
                    }
                    J.attributeArray("ev", [&] {
                        for (const CFGElement& El : *B) {
                            if (auto CS = El.getAs<CFGStmt>()) {
                                const Stmt* S = CS->getStmt();
                                if (!interesting(S)) continue;
                                if (auto* E = dyn_cast<Expr>(S)) {
                                    if (isa<MemberExpr>(E) || isa<DeclRefExpr>(E) || isa<ArraySubscriptExpr>(E)) {
                                        // access event
                                        J.object([&] {
                                            J.attribute("k", "acc");
                                            J.attribute("a", accessKind(E));
                                            J.attribute("ln", lineOf(E->getExprLoc()));
                                            J.attributeBegin("e"); tree(E); J.attributeEnd();
                                        });
                                        continue;
                                    }
                                }
                                tree(S);
                            } else if (auto DT = El.getAs<CFGAutomaticObjDtor>()) {
                                const VarDecl* V = DT->getVarDecl();
                                J.object([&] {
                                    J.attribute("k", "dtor");
                                    J.attribute("n", V->getNameAsString());
                                    J.attribute("id", varId(V));
                                    J.attribute("t", typeStr(V->getType()));
                                    J.attribute("ct", canonStr(V->getType()));
                                    { std::string rc = recOfType(V->getType()); if (!rc.empty()) J.attribute("rc", rc); }
                                });
                            } else if (auto IN = El.getAs<CFGInitializer>()) {
                                const CXXCtorInitializer* I = IN->getInitializer();
                                J.object([&] {
                                    J.attribute("k", "minit");
                                    if (I->isAnyMemberInitializer() && I->getAnyMember())
                                        J.attribute("f", qualName(I->getAnyMember()));
                                    else if (I->isBaseInitializer())
                                        J.attribute("base", typeStr(QualType(I->getBaseClass(), 0)));
                                    if (I->isWritten()) J.attribute("written", 1);
                                    if (I->getInit()) {
                                        J.attributeBegin("init"); tree(I->getInit()); J.attributeEnd();
                                    }
                                });
                            }
                        }
                    });
                });
            }
        });
    }

    // try-statement nesting: for each call/throw line range we record the try ranges so the
    // exception-flow engine can map events to handler chains
    void emitTryRanges(const Stmt* Body) {
        struct V : RecursiveASTVisitor<V> {
            Extractor& X;
            explicit V(Extractor& x) : X(x) {}
            bool shouldVisitLambdaBody() const { return false; }
            bool TraverseLambdaExpr(LambdaExpr*) { return true; }
            bool VisitCXXTryStmt(CXXTryStmt* T) {
                X.J.object([&] {
                    auto* TB = T->getTryBlock();
                    X.J.attribute("l0", X.lineOf(TB->getBeginLoc()));
                    X.J.attribute("c0", X.colOf(TB->getBeginLoc()));
                    X.J.attribute("l1", X.lineOf(TB->getEndLoc()));
                    X.J.attribute("c1", X.colOf(TB->getEndLoc()));
                    X.J.attributeArray("handlers", [&] {
                        for (unsigned i = 0; i < T->getNumHandlers(); i++) {
                            auto* H = T->getHandler(i);
                            X.J.object([&] {
                                X.J.attribute("t", H->getExceptionDecl() ? X.canonStr(H->getCaughtType())
                                                                         : std::string("..."));
                                X.J.attribute("l0", X.lineOf(H->getBeginLoc()));
                                X.J.attribute("l1", X.lineOf(H->getEndLoc()));
                                // does the handler rethrow?
                                bool re = false;
                                struct R : RecursiveASTVisitor<R> {
                                    bool& re;
                                    explicit R(bool& r) : re(r) {}
                                    bool TraverseLambdaExpr(LambdaExpr*) { return true; }
                                    bool VisitCXXThrowExpr(CXXThrowExpr* t) {
                                        if (!t->getSubExpr()) re = true;
                                        return true;
                                    }
                                } r(re);
                                r.TraverseStmt(H->getHandlerBlock());
                                if (re) X.J.attribute("rethrows", 1);
                            });
                        }
                    });
                });
                return true;
            }
        } v(*this);
        v.TraverseStmt(const_cast<Stmt*>(Body));
    }

    // ---------------------------------------------------------------- visitors

    bool VisitFunctionDecl(FunctionDecl* FD) {
        if (!FD->doesThisDeclarationHaveABody()) return true;
        if (!inRepo(FD->getLocation())) return true;
        if (FD->isDefaulted() && !FD->isUserProvided()) return true;
        std::string key = funcKey(FD);
        if (!emitted.insert(key).second) return true;
        varIds.clear();
        funcs.push_back(FD);
        return true;
    }

    bool VisitLambdaExpr(LambdaExpr* L) {
        if (CXXMethodDecl* M = L->getCallOperator()) {
            if (M->doesThisDeclarationHaveABody() && inRepo(M->getLocation())) {
                std::string key = funcKey(M);
                if (emitted.insert(key).second) funcs.push_back(M);
            }
        }
        return true;
    }

    bool VisitCXXRecordDecl(CXXRecordDecl* RD) {
        if (!RD->isThisDeclarationADefinition()) return true;
        if (RD->isLambda()) return true;
        if (!inRepo(RD->getLocation())) return true;
        if (RD->isDependentType()) return true;
        records.push_back(RD);
        return true;
    }

    bool VisitEnumDecl(EnumDecl* ED) {
        if (!ED->isThisDeclarationADefinition()) return true;
        if (!inRepo(ED->getLocation())) return true;
        enums.push_back(ED);
        return true;
    }

    bool VisitVarDecl(VarDecl* V) {
        if (!V->hasGlobalStorage()) return true;
        if (!inRepo(V->getLocation())) return true;
        if (isa<ParmVarDecl>(V)) return true;
        if (V->getDeclContext()->isDependentContext()) return true;
        globals.push_back(V);
        return true;
    }

    void emitFunction(const FunctionDecl* FD) {
        varIds.clear();
        J.object([&] {
            J.attribute("key", funcKey(FD));
            J.attribute("name", qualName(FD));
            {
                SourceLocation L = FD->getBody() ? FD->getBody()->getBeginLoc() : FD->getLocation();
                J.attribute("file", rel(fileOf(L)));
                J.attribute("line", lineOf(L));
            }
            J.attribute("endline", lineOf(FD->getEndLoc()));
            J.attribute("ret", typeStr(FD->getReturnType()));
            J.attributeArray("params", [&] {
                for (auto* P : FD->parameters()) {
                    J.object([&] {
                        J.attribute("n", P->getNameAsString());
                        J.attribute("id", varId(P));
                        J.attribute("t", typeStr(P->getType()));
                        { std::string rc = recOfType(P->getType()); if (!rc.empty()) J.attribute("rc", rc); }
                    });
                }
            });
            if (auto* MD = dyn_cast<CXXMethodDecl>(FD)) {
                const CXXRecordDecl* RD = MD->getParent();
                if (RD->isLambda()) {
                    J.attribute("lambda", 1);
                    const DeclContext* DC = RD->getDeclContext();
                    while (DC && !isa<FunctionDecl>(DC) && !DC->isTranslationUnit()) DC = DC->getParent();
                    if (DC && isa<FunctionDecl>(DC))
                        J.attribute("lambdaParent", funcKey(cast<FunctionDecl>(DC)));
                } else {
                    J.attribute("cls", qualName(RD));
                }
                if (MD->isVirtual()) J.attribute("virtual", 1);
                if (MD->isStatic()) J.attribute("static", 1);
                if (MD->isConst()) J.attribute("const", 1);
                if (isa<CXXConstructorDecl>(MD)) J.attribute("ctor", 1);
                if (isa<CXXDestructorDecl>(MD)) J.attribute("dtor", 1);
                if (MD->size_overridden_methods() > 0) {
                    J.attributeArray("overrides", [&] {
                        for (auto* O : MD->overridden_methods()) J.value(funcKey(O));
                    });
                }
            }
            if (FD->isTemplateInstantiation()) {
                if (const FunctionDecl* Pat = FD->getTemplateInstantiationPattern())
                    J.attribute("pattern", funcKey(Pat));
                if (auto* TA = FD->getTemplateSpecializationArgs()) {
                    J.attributeArray("targs", [&] {
                        for (auto& A : TA->asArray()) {
                            std::string s;
                            llvm::raw_string_ostream os(s);
                            A.print(C.PP, os, true);
                            os.flush();
                            J.value(s);
                        }
                    });
                }
            }
            bool dep = FD->isDependentContext();
            if (dep) J.attribute("dependent", 1);
            if (!dep && !NoCfg) {
                emitCFG(FD);
                J.attributeArray("tries", [&] { emitTryRanges(FD->getBody()); });
            }
        });
    }

    void emitRecord(const CXXRecordDecl* RD) {
        J.object([&] {
            J.attribute("name", qualName(RD));
            J.attribute("file", rel(fileOf(RD->getLocation())));
            J.attribute("line", lineOf(RD->getLocation()));
            J.attribute("kind", RD->isUnion() ? "union" : (RD->isClass() ? "class" : "struct"));
            if (RD->isPolymorphic()) J.attribute("polymorphic", 1);
            if (RD->isEmpty()) J.attribute("empty", 1);
            J.attributeArray("bases", [&] {
                for (auto& B : RD->bases()) {
                    std::string rc = recOfType(B.getType());
                    J.value(rc.empty() ? typeStr(B.getType()) : rc);
                }
            });
            if (!RD->isInvalidDecl() && RD->isCompleteDefinition()) {
                const ASTRecordLayout& L = C.AC->getASTRecordLayout(RD);
                J.attribute("size", (int64_t)L.getSize().getQuantity());
                J.attribute("align", (int64_t)L.getAlignment().getQuantity());
            }
            J.attributeArray("fields", [&] {
                for (auto* F : RD->fields()) {
                    J.object([&] {
                        J.attribute("n", F->getNameAsString());
                        J.attribute("q", qualName(F));
                        J.attribute("t", typeStr(F->getType()));
                        J.attribute("ct", canonStr(F->getType()));
                        { std::string rc = recOfType(F->getType()); if (!rc.empty()) J.attribute("rc", rc); }
                        J.attribute("ln", lineOf(F->getLocation()));
                        if (F->isBitField()) J.attribute("bits", (int64_t)F->getBitWidthValue(*C.AC));
                        if (F->getType().isConstQualified()) J.attribute("const", 1);
                        if (F->getType()->isReferenceType()) J.attribute("reference", 1);
                        if (F->hasInClassInitializer() && F->getInClassInitializer()) {
                            J.attributeBegin("init"); tree(F->getInClassInitializer()); J.attributeEnd();
                        }
                    });
                }
            });
            J.attributeArray("methods", [&] {
                for (auto* M : RD->methods()) {
                    if (M->isImplicit()) continue;
                    J.object([&] {
                        J.attribute("key", funcKey(M));
                        if (M->isVirtual()) J.attribute("virtual", 1);
                        if (M->isPure()) J.attribute("pure", 1);
                        if (M->isDeleted()) J.attribute("deleted", 1);
                        if (M->size_overridden_methods() > 0) {
                            J.attributeArray("overrides", [&] {
                                for (auto* O : M->overridden_methods()) J.value(funcKey(O));
                            });
                        }
                    });
                }
            });
        });
    }

    void emitEnum(const EnumDecl* ED) {
        J.object([&] {
            J.attribute("name", qualName(ED));
            J.attribute("file", rel(fileOf(ED->getLocation())));
            J.attribute("line", lineOf(ED->getLocation()));
            J.attribute("ut", canonStr(ED->getIntegerType()));
            J.attributeArray("consts", [&] {
                for (auto* E : ED->enumerators()) {
                    J.object([&] {
                        J.attribute("n", E->getNameAsString());
                        J.attribute("q", qualName(E));
                        J.attribute("v", E->getInitVal().getExtValue());
                    });
                }
            });
        });
    }

    void emitGlobal(const VarDecl* V) {
        varIds.clear();
        J.object([&] {
            J.attribute("name", qualName(V));
            J.attribute("n", V->getNameAsString());
            J.attribute("file", rel(fileOf(V->getLocation())));
            J.attribute("line", lineOf(V->getLocation()));
            J.attribute("t", typeStr(V->getType()));
            J.attribute("ct", canonStr(V->getType()));
            if (V->getType().isConstQualified()) J.attribute("const", 1);
            if (V->isStaticLocal()) {
                J.attribute("slocal", 1);
                const DeclContext* DC = V->getDeclContext();
                while (DC && !isa<FunctionDecl>(DC) && !DC->isTranslationUnit()) DC = DC->getParent();
                if (DC && isa<FunctionDecl>(DC)) J.attribute("func", funcKey(cast<FunctionDecl>(DC)));
            }
            if (V->isStaticDataMember()) J.attribute("smember", 1);
            if (V->getTLSKind() != VarDecl::TLS_None) J.attribute("tls", 1);
            const VarDecl* Def = V->getDefinition();
            const Expr* Init = V->getInit();
            if (!Init && Def) Init = Def->getInit();
            if (V->isThisDeclarationADefinition() != VarDecl::DeclarationOnly) J.attribute("def", 1);
            if (Init && !Init->isValueDependent()) {
                // evaluated value(s) for integral constants and integral arrays
                QualType T = V->getType();
                if (T->isIntegralOrEnumerationType()) {
                    Expr::EvalResult R;
                    if (Init->EvaluateAsInt(R, *C.AC)) J.attribute("cv", R.Val.getInt().getExtValue());
                }
                J.attributeBegin("init"); tree(Init); J.attributeEnd();
            }
        });
    }

    void finish() {
        J.attributeArray("functions", [&] {
            for (size_t i = 0; i < funcs.size(); i++) emitFunction(funcs[i]);
        });
        J.attributeArray("records", [&] {
            std::set<std::string> seen;
            for (auto* R : records)
                if (seen.insert(qualName(R)).second) emitRecord(R);
        });
        J.attributeArray("enums", [&] {
            std::set<std::string> seen;
            for (auto* E : enums)
                if (seen.insert(qualName(E) + "@" + std::to_string(lineOf(E->getLocation()))).second) emitEnum(E);
        });
        J.attributeArray("globals", [&] {
            for (auto* V : globals) emitGlobal(V);
        });
    }

private:
    Ctx& C;
    OStream& J;
    bool pendingDefArg = false;
    std::map<const FunctionDecl*, std::string> keyCache;
    std::map<const VarDecl*, int> varIds;
    std::set<std::string> emitted;
    std::vector<const FunctionDecl*> funcs;
    std::vector<const CXXRecordDecl*> records;
    std::vector<const EnumDecl*> enums;
    std::vector<const VarDecl*> globals;
};

class Consumer : public ASTConsumer {
public:
    explicit Consumer(std::string in) : inFile(std::move(in)) {}
    void HandleTranslationUnit(ASTContext& AC) override {
        std::error_code EC;
        llvm::raw_fd_ostream os(OutFile, EC);
        if (EC) {
            llvm::errs() << "txsa: cannot open " << OutFile << "\n";
            return;
        }
        OStream J(os);
        Ctx c;
        c.AC = &AC;
        c.SM = &AC.getSourceManager();
        c.PP = PrintingPolicy(AC.getLangOpts());
        c.PP.SuppressTagKeyword = true;
        c.PP.Bool = true;
        c.PP.SuppressUnwrittenScope = false;
        c.root = Root;
        J.object([&] {
            J.attribute("unit", inFile);
            J.attribute("errors", (int64_t)AC.getDiagnostics().getClient()->getNumErrors());
            Extractor X(c, J);
            X.TraverseDecl(AC.getTranslationUnitDecl());
            X.finish();
        });
        os << "\n";
    }

private:
    std::string inFile;
};

class Action : public ASTFrontendAction {
public:
    std::unique_ptr<ASTConsumer> CreateASTConsumer(CompilerInstance&, StringRef InFile) override {
        return std::make_unique<Consumer>(InFile.str());
    }
};

}  // namespace

int main(int argc, const char** argv) {
    auto Exp = CommonOptionsParser::create(argc, argv, Cat);
    if (!Exp) {
        llvm::errs() << Exp.takeError();
        return 2;
    }
    CommonOptionsParser& OP = Exp.get();
    ClangTool Tool(OP.getCompilations(), OP.getSourcePathList());
    return Tool.run(newFrontendActionFactory<Action>().get());
}
